"""Discharge of index / arithmetic panic sites from dominating guards.

For one MIR body:
  * `lin(operand)` expresses an integer operand as a linear term over *bases*:
      ("L", l)     value of a multiply-assigned local (or parameter) l
      ("len", k)   length of the collection rooted at place key k
      ("op", l)    an opaque singly-assigned temporary
    singly-assigned temporaries are expanded through their definitions
    (copies, +/- constants, checked-add results, len() calls, PtrMetadata);
  * every switch edge P->Q whose target has P as only predecessor yields a
    *fact* (a<b, a>=b, a==c, x!=0 ...);
  * a fact is usable at a site S if the edge dominates S and no base of the
    fact is modified on any path from Q to S that does not re-take the edge;
  * a requirement is proved by Fourier-Motzkin refutation of facts ∧ ¬goal
    (integers: strict inequalities are tightened by 1).
"""
from cfg import BodyCfg, reachable
from fractions import Fraction

LEN_FNS = ("::len",)
MAXV = 1 << 62


class Lin:
    __slots__ = ("t", "c")

    def __init__(self, t=None, c=0):
        self.t = dict(t or {})
        self.c = c

    def add(self, o, k=1):
        r = Lin(self.t, self.c + k * o.c)
        for b, v in o.t.items():
            r.t[b] = r.t.get(b, 0) + k * v
            if r.t[b] == 0:
                del r.t[b]
        return r

    def bases(self):
        return set(self.t)

    def __repr__(self):
        s = " + ".join("%s*%s" % (v, b) for b, v in self.t.items())
        return "%s + %s" % (s, self.c) if s else str(self.c)


class Bounds:
    def __init__(self, body):
        self.b = body
        self.cfg = BodyCfg(body)
        self.defs = {}          # local -> list of (bb, idx or "term", rvalue-or-call)
        self.mut_borrowed = {}  # local -> list of bb where &mut local is taken
        self._scan()
        self._lin_cache = {}
        self.facts = self._edge_facts()
        self._canreach = {}
        self.summary_of = None     # callable(resolved callee path) -> {"ge_param": [k], "some_plus_le_len": [(k, c)]}
        self.global_facts = []     # constraints that hold everywhere in the body (contracts on closure parameters)

    # ---- definitions ---------------------------------------------------
    def _scan(self):
        b = self.b
        for i, blk in enumerate(b.blocks):
            for k, s in enumerate(blk["stmts"]):
                if s["k"] != "assign":
                    continue
                pl = s["place"]
                if not pl["p"]:
                    self.defs.setdefault(pl["l"], []).append((i, k, s["rv"]))
                else:
                    # a store into a projection of a local (field of a tuple/struct local) also modifies it
                    if not any(e == "deref" for e in pl["p"]):
                        self.defs.setdefault(pl["l"], []).append((i, k, {"k": "partial"}))
                rv = s["rv"]
                if rv["k"] in ("ref", "rawptr") and (rv.get("bk") == "mut" or "Mut" in rv.get("pk", "")):
                    p = rv["place"]
                    if not any(e == "deref" for e in p["p"]):
                        self.mut_borrowed.setdefault(p["l"], []).append(i)
            t = blk["term"]
            if t["k"] == "call" and not t["dest"]["p"]:
                self.defs.setdefault(t["dest"]["l"], []).append((i, "term", {"k": "call", "t": t}))
            elif t["k"] == "call":
                d = t["dest"]
                if not any(e == "deref" for e in d["p"]):
                    self.defs.setdefault(d["l"], []).append((i, "term", {"k": "partial"}))

    def single_def(self, l):
        if 1 <= l <= self.b.mir["arg_count"]:
            return None
        d = self.defs.get(l, [])
        if len(d) == 1 and l not in self.mut_borrowed:
            return d[0]
        return None

    # ---- place keys ------------------------------------------------------
    def root_key(self, place, depth=0):
        """Stable key for the collection a place denotes, following reference
        temporaries to their referent: returns (key string, set of root locals)."""
        l = place["l"]
        proj = [e for e in place["p"]]
        roots = {l}
        sd = self.single_def(l)
        if sd is not None and depth < 12:
            rv = sd[2]
            src = None
            if rv["k"] in ("ref", "rawptr"):
                src = rv["place"]
            elif rv["k"] == "use" and rv["op"]["k"] in ("copy", "move"):
                src = rv["op"]["place"]
            elif rv["k"] == "cast" and rv["op"]["k"] in ("copy", "move") and ("Unsize" in rv["ck"] or "Pointer" in rv["ck"]):
                src = rv["op"]["place"]
            elif rv["k"] == "call":
                t = rv["t"]
                nm = t["callee"].get("path", "")
                if nm in ("std::ops::Deref::deref", "std::ops::DerefMut::deref_mut", "std::convert::AsRef::as_ref",
                          "std::borrow::Borrow::borrow", "std::vec::Vec::<T, A>::as_slice", "std::string::String::as_str") \
                        and t["args"] and t["args"][0]["k"] in ("copy", "move"):
                    src = t["args"][0]["place"]
            if src is not None:
                k2, r2 = self.root_key(src, depth + 1)
                rest = [e for e in proj if e != "deref"]
                return k2 + "".join("." + str(e.get("field", e)) for e in rest if isinstance(e, dict)), roots | r2
        key = self.b.local_name(l) + "".join(
            "." + str(e.get("field", e.get("downcast", "?"))) for e in proj if isinstance(e, dict))
        return key, roots

    # ---- linear terms ------------------------------------------------------
    def lin_local(self, l, depth=0):
        if l in self._lin_cache:
            return self._lin_cache[l]
        r = self._lin_local(l, depth)
        self._lin_cache[l] = r
        return r

    def _lin_local(self, l, depth):
        sd = self.single_def(l)
        if sd is None or depth > 16:
            return Lin({("L", l): 1})
        rv = sd[2]
        k = rv["k"]
        if k == "use":
            return self.lin_op(rv["op"], depth + 1, default=("op", l))
        if k == "binop" and rv["op"] in ("Add", "Sub", "AddUnchecked", "SubUnchecked"):
            a, c = self.lin_op(rv["l"], depth + 1), self.lin_op(rv["r"], depth + 1)
            return a.add(c, 1 if rv["op"].startswith("Add") else -1)
        if k == "binop" and rv["op"] in ("Mul",):
            a, c = self.lin_op(rv["l"], depth + 1), self.lin_op(rv["r"], depth + 1)
            if not a.t:
                return Lin({b: v * a.c for b, v in c.t.items()}, a.c * c.c)
            if not c.t:
                return Lin({b: v * c.c for b, v in a.t.items()}, a.c * c.c)
        if k == "unop" and rv["op"] == "PtrMetadata" and rv["x"]["k"] in ("copy", "move"):
            key, _ = self.root_key(rv["x"]["place"])
            return Lin({("len", key): 1})
        if k == "cast" and rv["ck"] in ("IntToInt",) and rv["op"]["k"] in ("copy", "move"):
            src_ty = rv["op"]["place"]["ty"]
            if src_ty in ("usize", "u64") and rv["ty"] in ("usize", "u64"):
                return self.lin_op(rv["op"], depth + 1)
        if k == "call":
            t = rv["t"]
            nm = t["callee"].get("resolved") or t["callee"].get("path", "")
            if nm.endswith("::len") and t["args"] and t["args"][0]["k"] in ("copy", "move"):
                key, _ = self.root_key(t["args"][0]["place"])
                return Lin({("len", key): 1})
        return Lin({("op", l): 1})

    def lin_op(self, o, depth=0, default=None):
        if o["k"] == "const":
            if o.get("int") is not None:
                return Lin({}, o["int"])
            return Lin({("opc", o.get("repr", "?")): 1})
        if o["k"] in ("copy", "move"):
            pl = o["place"]
            if not pl["p"]:
                return self.lin_local(pl["l"], depth)
            # (_t.0) of a checked binop
            if len(pl["p"]) == 1 and isinstance(pl["p"][0], dict) and pl["p"][0].get("field") == "0":
                sd = self.single_def(pl["l"])
                if sd is not None and sd[2]["k"] == "binop" and sd[2]["op"].endswith("WithOverflow"):
                    rv = sd[2]
                    a, c = self.lin_op(rv["l"], depth + 1), self.lin_op(rv["r"], depth + 1)
                    if rv["op"].startswith("Add"):
                        return a.add(c)
                    if rv["op"].startswith("Sub"):
                        return a.add(c, -1)
            key, _ = self.root_key(pl)
            return Lin({("pl", key): 1})
        return Lin({("opc", "?"): 1})

    def base_roots(self, base):
        """Locals whose modification invalidates a base."""
        if base[0] == "L":
            return {base[1]}
        if base[0] == "len":
            nm = base[1].split(".")[0]
            return {i for i, l in enumerate(self.b.locals) if (l.get("name") or "_%d" % i) == nm}
        if base[0] == "pl":
            nm = base[1].split(".")[0]
            return {i for i, l in enumerate(self.b.locals) if (l.get("name") or "_%d" % i) == nm}
        return set()

    # ---- facts from switch edges ---------------------------------------------
    def _cond_def(self, bb, local):
        """Definition of a condition temp, in the same block or as a singly assigned temp."""
        sd = self.single_def(local)
        if sd is not None:
            return sd[2]
        return None

    def _edge_facts(self):
        """list of (P, Q, [constraints]) ; constraint = (Lin, op) meaning Lin <= 0 (op 'le') or Lin == 0 ('eq')"""
        out = []
        b = self.b
        for p in sorted(self.cfg.live):
            t = b.blocks[p]["term"]
            if t["k"] != "switch":
                continue
            d = t["discr"]
            if d["k"] not in ("copy", "move") or d["place"]["p"]:
                continue
            dl = d["place"]["l"]
            rv = self._cond_def(p, dl)
            targets = t["targets"]
            other = t["otherwise"]
            edges = {}    # target -> list of truth labels
            is_bool = b.locals[dl]["s"] == "bool"
            if is_bool and rv is not None:
                cons_true, cons_false = self._cmp_constraints(rv)
                for v, q in targets:
                    if v == 0:
                        edges.setdefault(q, []).append(cons_false)
                edges.setdefault(other, []).append(cons_true)
            elif is_bool and rv is None and not (1 <= dl <= b.mir["arg_count"] and False):
                # `if flag` on a boolean variable itself (no comparison): the same facts as `flag == true`
                x = self.lin_local(dl)
                for v, q in targets:
                    if v == 0:
                        edges.setdefault(q, []).append([(x, "eq")])
                edges.setdefault(other, []).append([(x.add(Lin({}, -1)), "eq")])
            elif not is_bool and b.locals[dl].get("k") in ("uint", "int"):
                x = self.lin_local(dl)
                listed = []
                for v, q in targets:
                    listed.append(v)
                    edges.setdefault(q, []).append([(x.add(Lin({}, v), -1), "eq")])
                if listed == [0] and b.locals[dl].get("k") == "uint":
                    # x != 0 on an unsigned value: x >= 1
                    edges.setdefault(other, []).append([(Lin({}, 1).add(x, -1), "le")])
                else:
                    edges.setdefault(other, []).append(None)
            for q, lst in edges.items():
                if len(lst) != 1 or lst[0] is None:
                    continue
                if len([x for x in self.cfg.pred[q] if x in self.cfg.live]) != 1:
                    continue
                out.append((p, q, lst[0]))
        return out

    def _cmp_constraints(self, rv):
        """(constraints if true, constraints if false) for a boolean rvalue."""
        neg = False
        while rv["k"] == "unop" and rv["op"] == "Not" and rv["x"]["k"] in ("copy", "move") and not rv["x"]["place"]["p"]:
            inner = self.single_def(rv["x"]["place"]["l"])
            if inner is None:
                return None, None
            rv = inner[2]
            neg = not neg
        t = f = None
        if rv["k"] == "binop" and rv["op"] in ("Lt", "Le", "Gt", "Ge", "Eq", "Ne"):
            a, c = self.lin_op(rv["l"]), self.lin_op(rv["r"])
            d = a.add(c, -1)      # a - c
            nd = c.add(a, -1)     # c - a
            op = rv["op"]
            if op == "Lt":
                t, f = [(d.add(Lin({}, 1)), "le")], [(nd, "le")]
            elif op == "Le":
                t, f = [(d, "le")], [(nd.add(Lin({}, 1)), "le")]
            elif op == "Gt":
                t, f = [(nd.add(Lin({}, 1)), "le")], [(d, "le")]
            elif op == "Ge":
                t, f = [(nd, "le")], [(d.add(Lin({}, 1)), "le")]
            elif op in ("Eq", "Ne"):
                eqc = [(d, "eq")]
                nec = None
                # x != 0 on an unsigned value means x >= 1
                for x, y, ox in ((a, c, rv["l"]), (c, a, rv["r"])):
                    if not y.t and y.c == 0 and self._unsigned_op(ox):
                        nec = [(Lin({}, 1).add(x, -1), "le")]
                t, f = (eqc, nec) if op == "Eq" else (nec, eqc)
        elif rv["k"] == "use" and rv["op"]["k"] in ("copy", "move") and not rv["op"]["place"]["p"] and \
                self.b.locals[rv["op"]["place"]["l"]]["s"] == "bool":
            x = self.lin_op(rv["op"])          # `if flag`: a copy of a boolean variable
            t, f = [(x.add(Lin({}, -1)), "eq")], [(x, "eq")]
        elif rv["k"] == "call":
            tm = rv["t"]
            nm = tm["callee"].get("resolved") or tm["callee"].get("path", "")
            if nm.endswith("::is_empty") and tm["args"] and tm["args"][0]["k"] in ("copy", "move"):
                key, _ = self.root_key(tm["args"][0]["place"])
                ln = Lin({("len", key): 1})
                t, f = [(ln, "eq")], [(Lin({}, 1).add(ln, -1), "le")]
        if neg:
            t, f = f, t
        return t, f

    def _unsigned_op(self, o):
        ty = o.get("ty") or (o.get("place") or {}).get("ty") or ""
        return ty in ("usize", "u64", "u32", "u16", "u8")

    # ---- validity of a fact at a site --------------------------------------------
    def _modifiers(self, local):
        """(bb, idx) positions that may modify a local."""
        out = [(bb, k) for bb, k, rv in self.defs.get(local, [])]
        for bb in self.mut_borrowed.get(local, []):
            out.append((bb, "borrow"))
        return out

    def fact_valid(self, fact, site_bb, site_idx):
        P, Q, cons = fact
        if not self.cfg.dom(Q, site_bb):
            return False
        # region: blocks on paths Q ->* site_bb without re-taking edge P->Q
        succ = self.cfg.succ
        # forward reach from Q with edge P->Q removed
        fwd = set()
        stack = [Q]
        while stack:
            x = stack.pop()
            if x in fwd:
                continue
            fwd.add(x)
            for y in succ[x]:
                if x == P and y == Q:
                    continue
                if y not in fwd:
                    stack.append(y)
        if site_bb not in fwd:
            return False
        # backward reach to site
        bwd = set()
        stack = [site_bb]
        pred = self.cfg.pred
        while stack:
            x = stack.pop()
            if x in bwd:
                continue
            bwd.add(x)
            for y in pred[x]:
                if y == P and x == Q:
                    continue
                if y not in bwd:
                    stack.append(y)
        region = fwd & bwd
        roots = set()
        for ln, op in cons:
            for base in ln.bases():
                roots |= self.base_roots(base)
        def pos(k):
            if k == "term":
                return 10 ** 9
            if k == "borrow":
                return -1
            return k
        for r in roots:
            for bb, k in self._modifiers(r):
                if bb not in region:
                    continue
                if bb != site_bb:
                    return False
                if pos(k) < pos(site_idx):
                    return False
                if pos(k) == pos(site_idx):
                    continue       # the site's own effect (e.g. the checked add whose result is stored later)
                if self._cycle_within(region, site_bb):
                    return False
        return True

    def _cycle_within(self, region, bb):
        """Is there a cycle through bb inside the region (so that a later
        statement of bb runs before the site on the next iteration)?"""
        seen = set()
        stack = [s for s in self.cfg.succ[bb] if s in region]
        while stack:
            x = stack.pop()
            if x == bb:
                return True
            if x in seen:
                continue
            seen.add(x)
            for y in self.cfg.succ[x]:
                if y in region:
                    stack.append(y)
        return False

    def def_facts(self):
        """(bb, k, local, Lin) for assignments `l = <linear expression>` to multiply-assigned locals."""
        if hasattr(self, "_def_facts"):
            return self._def_facts
        out = []
        for l, ds in self.defs.items():
            if self.single_def(l) is not None or l in self.mut_borrowed:
                continue
            if self.b.locals[l].get("k") not in ("uint", "int"):
                continue
            for bb, k, rv in ds:
                ln = None
                if rv["k"] == "use":
                    ln = self.lin_op(rv["op"])
                elif rv["k"] == "call":
                    t = rv["t"]
                    nm = t["callee"].get("resolved") or t["callee"].get("path", "")
                    if nm.endswith("::len") and t["args"] and t["args"][0]["k"] in ("copy", "move"):
                        key, _ = self.root_key(t["args"][0]["place"])
                        ln = Lin({("len", key): 1})
                if ln is None or ("L", l) in ln.bases():
                    continue
                if any(b_[0] in ("opc",) for b_ in ln.bases()):
                    continue
                out.append((bb, k, l, ln))
        self._def_facts = out
        return out

    def def_fact_valid(self, df, site_bb, site_idx):
        bb, k, l, ln = df
        if not self.cfg.dom(bb, site_bb):
            return False

        def pos(x):
            return 10 ** 9 if x == "term" else (-1 if x == "borrow" else x)
        succ, pred = self.cfg.succ, self.cfg.pred
        if bb == site_bb:
            if not pos(k) < pos(site_idx):
                return False
        # blocks strictly between the definition and the site, never passing through bb again
        fwd = set()
        stack = [s for s in succ[bb]] if bb != site_bb else []
        while stack:
            x = stack.pop()
            if x in fwd or x == bb:
                continue
            fwd.add(x)
            stack.extend(succ[x])
        bwd = set()
        stack = [site_bb] if bb != site_bb else []
        while stack:
            x = stack.pop()
            if x in bwd or x == bb:
                continue
            bwd.add(x)
            stack.extend(pred[x])
        region = fwd & bwd
        roots = {l}
        for base in ln.bases():
            roots |= self.base_roots(base)
        for r in roots:
            for mb, mk in self._modifiers(r):
                if mb == bb:
                    if r == l and mk == k:
                        continue
                    if pos(mk) > pos(k):
                        # later in the defining block: executed before leaving it
                        if bb != site_bb or pos(mk) < pos(site_idx):
                            return False
                    elif bb in reachable(succ, succ[bb]) and False:
                        pass
                    continue
                if mb in region:
                    if mb == site_bb and pos(mk) >= pos(site_idx):
                        # after the site in its own block: matters only on a cycle back to the site avoiding bb
                        sub_succ = [[y for y in succ[i] if y != bb] for i in range(len(succ))]
                        if site_bb in reachable(sub_succ, [y for y in succ[site_bb] if y != bb]):
                            return False
                        continue
                    return False
        return True

    def self_increments(self):
        """(bb, k, local, c) for assignments  l = l + c  (c constant, possibly negative)."""
        if hasattr(self, "_self_inc"):
            return self._self_inc
        out = []
        for l, ds in self.defs.items():
            if self.single_def(l) is not None or l in self.mut_borrowed:
                continue
            for bb, k, rv in ds:
                binop, rb, rk = None, bb, k
                if rv["k"] == "binop" and rv["op"] in ("Add", "Sub"):
                    binop = rv
                elif rv["k"] == "use" and rv["op"]["k"] in ("copy", "move"):
                    pl = rv["op"]["place"]
                    if len(pl["p"]) == 1 and isinstance(pl["p"][0], dict) and pl["p"][0].get("field") == "0":
                        sd = self.single_def(pl["l"])
                        if sd and sd[2]["k"] == "binop" and sd[2]["op"] in ("AddWithOverflow", "SubWithOverflow"):
                            binop, rb, rk = sd[2], sd[0], sd[1]
                if binop is None:
                    continue
                l2, r2 = binop["l"], binop["r"]
                src = l2["place"]["l"] if l2["k"] in ("copy", "move") and not l2["place"]["p"] else None
                nfollow = 0
                while src is not None and src != l and nfollow < 8:
                    sdd = self.single_def(src)
                    nfollow += 1
                    if sdd and sdd[2]["k"] == "use" and sdd[2]["op"]["k"] in ("copy", "move") and not sdd[2]["op"]["place"]["p"]:
                        src = sdd[2]["op"]["place"]["l"]
                    else:
                        break
                if src == l and r2["k"] == "const" and r2.get("int") is not None:
                    c = r2["int"] if binop["op"].startswith("Add") else -r2["int"]
                    # the facts must be taken where the old value is read
                    out.append((bb, k, l, c, rb, rk))
        self._self_inc = out
        return out

    # ---- facts from iteration and slicing -------------------------------------------
    def _unwrap_def(self, l, depth=0):
        """Follow plain moves / into_iter / rev / by-ref borrows back from an iterator local to what created it:
        returns (bb, k, rvalue) of the creating definition or None."""
        ds = self.defs.get(l, [])
        ds = [d for d in ds if d[2].get("k") != "partial"]
        if len(ds) != 1 or depth > 8 or 1 <= l <= self.b.mir["arg_count"]:
            return None
        bb, k, rv = ds[0]
        if rv["k"] == "use" and rv["op"]["k"] in ("copy", "move") and not rv["op"]["place"]["p"]:
            return self._unwrap_def(rv["op"]["place"]["l"], depth + 1)
        if rv["k"] in ("ref", "rawptr") and all(e == "deref" for e in rv["place"]["p"]):
            return self._unwrap_def(rv["place"]["l"], depth + 1)
        if rv["k"] == "call":
            t = rv["t"]
            nm = t["callee"].get("path", "")
            last = nm.split("::")[-1]
            if last in ("into_iter", "rev", "by_ref", "iter", "iter_mut") and t["args"] and t["args"][0]["k"] in ("copy", "move") \
                    and not t["args"][0]["place"]["p"] and last in ("into_iter", "rev", "by_ref"):
                inner = self._unwrap_def(t["args"][0]["place"]["l"], depth + 1)
                if inner is not None:
                    return inner
        return bb, k, rv

    def iteration_facts(self):
        """(creation bb, creation k, [constraints], bases Lin) for values whose range follows from how they were
        produced, valid wherever the creating operands are unchanged since:
          * item of `for i in a..b` (also reversed): a <= i < b
          * `off` of `Some(off) = it.position(..)` over a slice iterator of s: off < len(s); over s.windows(n): off + n <= len(s)
          * s2 = &s[a..] (after the slicing did not panic): len(s2) = len(s) - a;  &s[a..b]: len(s2) = b - a"""
        if hasattr(self, "_iter_facts"):
            return self._iter_facts
        out = []
        b = self.b
        for i, blk in enumerate(b.blocks):
            t = blk["term"]
            if t["k"] != "call" or t["dest"]["p"]:
                continue
            nm = t["callee"].get("resolved") or t["callee"].get("path", "")
            last = nm.split("::")[-1]
            d = t["dest"]["l"]
            summ = self.summary_of(nm) if self.summary_of is not None else None
            if summ:
                # what the callee guarantees about its result (proved on the callee's own body, see rules/C18.summaries)
                for k in summ.get("ge_param", []):
                    if k - 1 < len(t["args"]) and self.single_def(d) is not None:
                        a = self.lin_op(t["args"][k - 1])
                        out.append((i, "term", i, [(a.add(Lin({("op", d): 1}), -1), "le")], a))
                for k, c in summ.get("some_plus_le_len", []):
                    if k - 1 < len(t["args"]) and t["args"][k - 1]["k"] in ("copy", "move"):
                        key, _ = self.root_key(t["args"][k - 1]["place"])
                        ln = Lin({("len", key): 1})
                        item = Lin({("pl", self.root_key({"l": d, "p": [{"downcast": "Some"}, {"field": "0"}]})[0]): 1})
                        out.append((i, "term", i, [(item.add(ln, -1).add(Lin({}, c)), "le")], ln))
            if last in ("next", "next_back", "position", "rposition") and t["args"] and t["args"][0]["k"] in ("copy", "move") \
                    and not t["args"][0]["place"]["p"]:
                cre = self._unwrap_def(t["args"][0]["place"]["l"])
                if cre is None:
                    continue
                cb, ck, rv = cre
                item = Lin({("pl", self.root_key({"l": d, "p": [{"downcast": "Some"}, {"field": "0"}]})[0]): 1})
                if last in ("next", "next_back") and rv["k"] == "aggregate" and rv.get("adt", "").endswith("ops::Range") and len(rv["ops"]) == 2:
                    st, en = self.lin_op(rv["ops"][0]), self.lin_op(rv["ops"][1])
                    out.append((cb, ck, i, [(st.add(item, -1), "le"), (item.add(en, -1).add(Lin({}, 1)), "le")], st.add(en)))
                elif last in ("position", "rposition") and rv["k"] == "call":
                    ct = rv["t"]
                    cn = (ct["callee"].get("resolved") or ct["callee"].get("path", "")).split("::")[-1]
                    if cn in ("iter", "windows") and ct["args"] and ct["args"][0]["k"] in ("copy", "move"):
                        key, _ = self.root_key(ct["args"][0]["place"])
                        ln = Lin({("len", key): 1})
                        if cn == "iter":
                            out.append((cb, ck, i, [(item.add(ln, -1).add(Lin({}, 1)), "le")], ln))
                        elif len(ct["args"]) == 2 and ct["args"][1]["k"] == "const" and (ct["args"][1].get("int") or 0) >= 1:
                            out.append((cb, ck, i, [(item.add(ln, -1).add(Lin({}, ct["args"][1]["int"])), "le")], ln))
            elif last == "index" and len(t["args"]) == 2 and "RangeFull" in (t["callee"].get("path_args") or "") and \
                    t["args"][0]["k"] in ("copy", "move"):
                key, _ = self.root_key(t["args"][0]["place"])
                ln = Lin({("len", key): 1})
                sub = Lin({("len", self.root_key({"l": d, "p": ["deref"]})[0]): 1})
                out.append((i, "term", i, [(sub.add(ln, -1), "eq")], ln))       # &s[..] has the length of s
            elif last == "index" and len(t["args"]) == 2 and "Range" in (t["callee"].get("path_args") or "") and \
                    t["args"][0]["k"] in ("copy", "move") and t["args"][1]["k"] in ("copy", "move") and not t["args"][1]["place"]["p"]:
                sd = self.single_def(t["args"][1]["place"]["l"])
                if not sd or sd[2]["k"] != "aggregate":
                    continue
                rng = sd[2]
                key, _ = self.root_key(t["args"][0]["place"])
                ln = Lin({("len", key): 1})
                sub = Lin({("len", self.root_key({"l": d, "p": ["deref"]})[0]): 1})
                adt = rng.get("adt", "")
                ops = [self.lin_op(o) for o in rng["ops"]]
                if adt.endswith("ops::RangeFrom") and len(ops) == 1:
                    out.append((i, "term", i, [(sub.add(ln, -1).add(ops[0]), "eq")], ln.add(ops[0])))
                elif adt.endswith("ops::Range") and len(ops) == 2:
                    out.append((i, "term", i, [(sub.add(ops[1], -1).add(ops[0]), "eq")], ops[0].add(ops[1])))
                elif adt.endswith("ops::RangeTo") and len(ops) == 1:
                    out.append((i, "term", i, [(sub.add(ops[0], -1), "eq")], ops[0]))
        self._iter_facts = out
        return out

    def facts_at(self, site_bb, site_idx, _depth=0):
        out = list(self.global_facts)
        for cb, ck, vb, cons, bases in self.iteration_facts():
            # usable where the value exists (its producing call dominates the site) and the operands the bound talks
            # about have not been modified since they were read
            if (vb == site_bb and site_idx != "term") or not self.cfg.dom(vb, site_bb):
                continue
            if vb == site_bb and site_idx == "term" and False:
                continue
            if self.def_fact_valid((cb, ck, -1, bases), site_bb, site_idx):
                out.extend(cons)
        if _depth == 0:
            # facts established before  l = l + c  carry over with l replaced by l - c
            for (ib, ik, l, c, rb, rk) in self.self_increments():
                if not self.def_fact_valid((ib, ik, l, Lin({})), site_bb, site_idx):
                    continue
                before = self.facts_at(rb, rk, _depth=1)
                for ln, op in before:
                    if ("L", l) not in ln.bases():
                        continue
                    coef = ln.t[("L", l)]
                    shifted = Lin(ln.t, ln.c - coef * c)
                    # the other bases of the fact must not change between the increment and the site
                    others = Lin({b_: v for b_, v in ln.t.items() if b_ != ("L", l)})
                    if self.def_fact_valid((ib, ik, l, others), site_bb, site_idx):
                        out.append((shifted, op))
        for f in self.facts:
            if f[2] and self.fact_valid(f, site_bb, site_idx):
                out.extend(f[2])
        for df in self.def_facts():
            if self.def_fact_valid(df, site_bb, site_idx):
                bb, k, l, ln = df
                out.append((Lin({("L", l): 1}).add(ln, -1), "eq"))
        return out

    # ---- proving -----------------------------------------------------------------
    def nonneg_bases(self, lins):
        out = []
        for ln in lins:
            for base in ln.bases():
                if base[0] in ("len",):
                    out.append(base)
                elif base[0] == "L" and self.b.locals[base[1]].get("k") == "uint":
                    out.append(base)
                elif base[0] == "op" and self.b.locals[base[1]].get("k") == "uint":
                    out.append(base)
                elif base[0] == "pl":
                    out.append(base)   # only used for usize places
        return set(out)

    def prove(self, goal, site_bb, site_idx, extra=()):
        """goal: Lin g meaning g <= 0 must hold.  Returns True if implied by the
        usable facts (plus non-negativity of unsigned bases)."""
        cons = list(self.facts_at(site_bb, site_idx)) + list(extra)
        rows = []
        lins = [goal] + [c[0] for c in cons]
        for ln, op in cons:
            rows.append(ln)
            if op == "eq":
                rows.append(Lin({b: -v for b, v in ln.t.items()}, -ln.c))
        for base in self.nonneg_bases(lins):
            rows.append(Lin({base: -1}, 0))           # -x <= 0
        # negated goal: g >= 1  <=>  -g + 1 <= 0
        rows.append(Lin({b: -v for b, v in goal.t.items()}, 1 - goal.c))
        return infeasible(rows)


def infeasible(rows, limit=4000):
    """Fourier-Motzkin over the rationals: is {r <= 0 for r in rows} empty?"""
    rows = [(dict((b, Fraction(v)) for b, v in r.t.items()), Fraction(r.c)) for r in rows]
    vars_ = set()
    for t, c in rows:
        vars_ |= set(t)
    for v in sorted(vars_, key=repr):
        pos = [(t, c) for t, c in rows if t.get(v, 0) > 0]
        neg = [(t, c) for t, c in rows if t.get(v, 0) < 0]
        rest = [(t, c) for t, c in rows if t.get(v, 0) == 0]
        new = rest
        for tp, cp in pos:
            for tn, cn in neg:
                a, b_ = tp[v], -tn[v]
                t = {}
                for k in set(tp) | set(tn):
                    if k == v:
                        continue
                    val = tp.get(k, 0) * b_ + tn.get(k, 0) * a
                    if val != 0:
                        t[k] = val
                new.append((t, cp * b_ + cn * a))
                if len(new) > limit:
                    return False
        rows = new
    return any(not t and c > 0 for t, c in rows)
