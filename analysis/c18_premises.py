"""Machine-checked premises of reviewed C18 entries (reference/C18_reviewed.json).

Every reviewed entry names the site by (function, kind, alpha-normalised
requirement) and lists premises that are re-evaluated on every run:

  facts        alpha-normalised guard facts that must still be valid at the site
               (dominating, not killed) — checked by the caller (rules/C18.py)
  callers      the exact multiset {caller function: number of call sites} of the
               function containing the site, inside the parser-reachable set
  ctor_only    {"adt", "variant", "fns"}: aggregates of that variant are built
               only in the listed functions (derived Clone impls excepted)
  ctor_consts  {"adt", "variant", "field", "values"}: the named field of every
               such aggregate is one of the listed unit-variant constants
  returns_variant {"fn", "adt", "variant"}: every returning path of fn yields that variant
An entry whose premises do not all hold stops discharging its site.
"""
from sym import Walker, strip


def check(ent, prog, cg, body, R):
    msgs = []
    for pr in ent.get("premises", []):
        fn = PREMISES.get(pr.get("type"))
        if fn is None:
            return False, "unknown premise %r" % pr.get("type")
        try:
            ok, msg = fn(pr, prog, cg, body, R)
        except Exception as e:      # a premise that cannot be evaluated does not hold
            ok, msg = False, "premise check failed: %s" % e
        if not ok:
            return False, msg
        msgs.append(msg)
    return True, "; ".join(msgs) if msgs else "no structural premise beyond the recorded guards"


def p_callers(pr, prog, cg, body, R):
    """The reviewed argument talks about what the listed callers pass.  It still applies when a call site disappears,
    and when a call now goes through a private helper that is itself reached only from the listed callers (helper
    extraction); it does not when a new function calls in, or a listed caller gains a call site."""
    want = pr["callers"]

    def callers_of(path):
        got = {}
        for p in R:
            b = cg.nodes[p]
            for i, t in b.calls():
                nm = t["callee"].get("resolved") or t["callee"].get("path") or ""
                if nm == path:
                    got[b.npath] = got.get(b.npath, 0) + 1
        return got

    def rooted(fn_npath, depth=0):
        """Is this (new) caller a private helper reached only from the reviewed callers?"""
        if fn_npath in want:
            return True
        b = next((x for x in prog.lib_bodies() if x.npath == fn_npath), None)
        if b is None or b.is_pub or depth > 3:
            return False
        cs = callers_of(b.path)
        return bool(cs) and all(rooted(c, depth + 1) for c in cs)
    got = callers_of(body.path)
    for c, n in got.items():
        if c in want:
            if n > want[c]:
                return False, "call sites of %s changed: %s now calls it %d times, reviewed %d" % (body.npath, c, n, want[c])
        elif not rooted(c):
            return False, "call sites of %s changed: now %s, reviewed %s" % (body.npath, got, want)
    if not got:
        return True, "no caller left"
    return True, "callers within the reviewed set (%s)" % ", ".join("%s×%d" % kv for kv in sorted(got.items()))


def _aggregates(prog, adt, variant):
    for b in prog.lib_bodies():
        for blk in b.blocks:
            for s in blk["stmts"]:
                if s["k"] == "assign" and s["rv"]["k"] == "aggregate" and s["rv"].get("adt") == adt and \
                        s["rv"].get("variant") == variant:
                    yield b, s


def p_ctor_only(pr, prog, cg, body, R):
    bad = []
    n = 0
    for b, s in _aggregates(prog, pr["adt"], pr["variant"]):
        n += 1
        if b.npath in pr["fns"] or "Clone" in b.path:
            continue
        bad.append(b.npath)
    if bad:
        return False, "%s::%s is also constructed in %s" % (pr["adt"], pr["variant"], sorted(set(bad)))
    if n == 0:
        return False, "no construction of %s::%s found" % (pr["adt"], pr["variant"])
    return True, "%s::%s is built only in %s" % (pr["adt"].split("::")[-1], pr["variant"], pr["fns"])


def _unit_values(b, o, depth):
    if o["k"] == "const":
        return {o.get("repr", "?").split("::")[-1]}
    if o["k"] not in ("copy", "move") or o["place"]["p"] or depth > 6:
        return {None}
    l = o["place"]["l"]
    if 1 <= l <= b.mir["arg_count"]:
        return {None}
    out = set()
    for blk in b.blocks:
        for s2 in blk["stmts"]:
            if s2["k"] == "assign" and not s2["place"]["p"] and s2["place"]["l"] == l:
                rv = s2["rv"]
                if rv["k"] == "aggregate" and not rv.get("ops"):
                    out.add(rv.get("variant"))
                elif rv["k"] == "use":
                    out |= _unit_values(b, rv["op"], depth + 1)
                else:
                    out.add(None)
        t = blk["term"]
        if t["k"] == "call" and not t["dest"]["p"] and t["dest"]["l"] == l:
            out.add(None)
    return out or {None}


def p_ctor_consts(pr, prog, cg, body, R):
    vals = set()
    for b, s in _aggregates(prog, pr["adt"], pr["variant"]):
        if "Clone" in b.path:
            continue
        rv = s["rv"]
        for f, o in zip(rv["fields"], rv["ops"]):
            if f != pr["field"]:
                continue
            # the operand is a unit-variant aggregate / constant, or a local every assignment of which is one
            # (`let token_type = match s { "," => Comma, .. }`), followed through plain copies
            vals |= _unit_values(b, o, 0)
    if not vals or None in vals or not vals <= set(pr["values"]):
        return False, "%s::%s.%s takes values %s, reviewed %s" % (pr["adt"], pr["variant"], pr["field"], sorted(map(str, vals)), pr["values"])
    return True, "%s.%s ∈ %s" % (pr["variant"], pr["field"], sorted(vals))


def p_returns_variant(pr, prog, cg, body, R):
    f = prog.one(pr["fn"])
    if f is None:
        return False, "function %s not found" % pr["fn"]
    n = 0
    import inline
    pol = inline.helpers(prog, keep=tuple(pr.get("via", [])))
    for p in Walker(f, max_visits=2, max_paths=100000, inline=pol).paths():
        if p.end != "return":
            continue
        n += 1
        r = strip(p.ret)
        if pr.get("wrap") and r[0] == "call" and any(r[1].endswith(x) for x in pr.get("via", [])):
            continue     # the callee's own Result is passed on unchanged (its premise is listed separately)
        if pr.get("wrap"):
            # Result/Option wrapper: only the payload of the named variant is constrained
            if r[0] == "agg" and r[2] == pr["wrap"]:
                r = strip(dict(r[3]).get("0"))
            elif r[0] == "agg":
                n -= 1
                continue
            elif r[0] == "call" and "from_residual" in r[1]:
                n -= 1
                continue
        ok = r[0] == "agg" and r[2] == pr["variant"]
        if not ok and r[0] == "call":
            ok = any(r[1].endswith(x) for x in pr.get("via", []))
        if not ok and r[0] == "field" and r[2] in ("Ok.0", "Some.0") and strip(r[1])[0] == "call":
            ok = any(strip(r[1])[1].endswith(x) for x in pr.get("via", []))
        if not ok:
            return False, "%s can return %s" % (pr["fn"], r[:3])
    return n > 0, "%s returns only %s (%d paths)" % (pr["fn"].split("::")[-1], pr["variant"], n)


def p_ret_ordered_positions(pr, prog, cg, body, R):
    """{"fn"}: every `Some((a, b))` fn returns (possibly inside Ok) has a, b = positions of one `enumerate()` over its
    first parameter (or the sentinel -1), behind a test that a is not the sentinel and a test that b is not below a,
    a and b being taken at different steps of the iteration: 0 <= a < b < len(param)."""
    import inline, iters, fdeval
    f = prog.one(pr["fn"])
    if f is None:
        return False, "function %s not found" % pr["fn"]
    par = ("param", 1, f.locals[1].get("name") or "")
    n = 0

    def is_sentinel(t):
        return isinstance(t, tuple) and t and t[0] == "const" and t[3] == -1

    def pos(t):
        r = iters.resolve(t)
        if r is not None and r[0] == "idx":
            from sym import mentions
            if mentions(r[1], lambda x: x == par):
                return r[1]
        return None
    for p in Walker(f, max_visits=3, max_paths=100000, inline=inline.helpers(prog)).paths():
        if p.end != "return":
            continue
        r = strip(p.ret)
        if r[0] == "agg" and r[2] == "Ok":
            r = strip(dict(r[3]).get("0"))
        if not (r[0] == "agg" and r[2] == "Some"):
            continue
        tup = strip(dict(r[3]).get("0"))
        comps = [strip(v) for v in tup[1]] if tup[0] == "tuple" else None
        if comps is None or len(comps) != 2:
            return False, "%s returns Some(%s), not a pair" % (pr["fn"], str(tup)[:40])
        n += 1
        a, b = (fdeval.uncast(x) for x in comps)
        for x in (a, b):
            if not (is_sentinel(x) or pos(x) is not None):
                return False, "%s can return a component that is not a position of its argument" % pr["fn"].split("::")[-1]
        if a == b:
            return False, "%s can return the same position twice" % pr["fn"].split("::")[-1]
        ordered = sentinel_excluded = False
        for c, v, bb in p.decisions:
            c = strip(c)
            if c[0] == "unop" and c[1] == "Not":
                c, v = strip(c[2]), not v
            if c[0] != "binop" or not isinstance(v, bool):
                continue
            x, y = fdeval.uncast(c[2]), fdeval.uncast(c[3])
            op = c[1]
            if (x, y) == (b, a) and ((op == "Lt" and v is False) or (op == "Ge" and v is True)):
                ordered = True
            if (x, y) == (a, b) and ((op == "Gt" and v is False) or (op == "Le" and v is True)):
                ordered = True
            if (x == a and is_sentinel(y)) or (y == a and is_sentinel(x)):
                if (op == "Eq" and v is False) or (op == "Ne" and v is True):
                    sentinel_excluded = True
            if is_sentinel(a):
                pass
        if is_sentinel(a) and not sentinel_excluded:
            return False, "%s can return the sentinel as the first position" % pr["fn"].split("::")[-1]
        if not is_sentinel(a) and pos(a) is not None:
            sentinel_excluded = True
        if not ordered:
            return False, "%s can return Some((a, b)) without having tested that b is not below a" % pr["fn"].split("::")[-1]
        if not sentinel_excluded:
            return False, "%s can return the sentinel as the first position" % pr["fn"].split("::")[-1]
    return n > 0, "%s returns Some((a, b)) only with 0 <= a < b < len(argument) (%d paths)" % (pr["fn"].split("::")[-1], n)


def p_ret_position_offset(pr, prog, cg, body, R):
    """{"fn", "offset"}: every `Some(v)` fn returns is (a position of an `enumerate()` over its first parameter) + offset."""
    import inline, iters, fdeval
    from sym import mentions
    f = prog.one(pr["fn"])
    if f is None:
        return False, "function %s not found" % pr["fn"]
    par = ("param", 1, f.locals[1].get("name") or "")
    n = 0
    for p in Walker(f, max_visits=3, max_paths=100000, inline=inline.helpers(prog)).paths():
        if p.end != "return":
            continue
        r = strip(p.ret)
        if not (r[0] == "agg" and r[2] == "Some"):
            continue
        n += 1
        v = fdeval.uncast(dict(r[3]).get("0"))
        off = 0
        while isinstance(v, tuple) and v and v[0] in ("binop", "field"):
            if v[0] == "field" and v[2] == "0" and strip(v[1])[0] == "binop" and "WithOverflow" in strip(v[1])[1]:
                v = strip(v[1])
                continue
            if v[0] != "binop":
                break
            k = strip(v[3])
            if not (k[0] == "const" and isinstance(k[3], int)) or not any(v[1].startswith(x) for x in ("Sub", "Add")):
                break
            off += -k[3] if v[1].startswith("Sub") else k[3]
            v = fdeval.uncast(v[2])
        res = iters.resolve(v)
        if not (res is not None and res[0] == "idx" and mentions(res[1], lambda x: x == par)):
            return False, "%s can return Some(%s), which is not a position of its argument" % (pr["fn"].split("::")[-1], str(v)[:40])
        if res[2] + off != pr["offset"]:
            return False, "%s returns position %+d, the review assumed position %+d" % (pr["fn"].split("::")[-1], res[2] + off, pr["offset"])
    return n > 0, "%s returns Some(position %+d) only (%d paths)" % (pr["fn"].split("::")[-1], pr["offset"], n)


def p_arg_nonempty(pr, prog, cg, body, R):
    """{"arg", "callers": {caller: bool}}: at every call of the reviewed function made from (a private helper of) a
    caller marked true, the string / slice handed over as argument `arg` is known to be non-empty at the call (a
    dominating `len() == 0 -> return` guard): the review relied on that caller testing for an empty piece first."""
    from bounds import Bounds, Lin
    want = pr["callers"]

    def callers_of(path):
        out = []
        for p in R:
            b = cg.nodes[p]
            for i, t in b.calls():
                if (t["callee"].get("resolved") or t["callee"].get("path") or "") == path:
                    out.append((b, i, t))
        return out

    def roots(fn, depth=0):
        if fn.npath in want:
            return {fn.npath}
        if fn.is_pub or depth > 3:
            return set()
        out = set()
        for b, i, t in callers_of(fn.path):
            out |= roots(b, depth + 1)
        return out
    n = 0
    for b, i, t in callers_of(body.path):
        rs = roots(b)
        if not any(want.get(r) for r in rs):
            continue
        n += 1
        a = t["args"][pr.get("arg", 0)]
        if a["k"] not in ("copy", "move"):
            return False, "argument of %s at line %d is not a place" % (body.npath, t["line"])
        bnd = Bounds(b)
        key, _ = bnd.root_key(a["place"])
        goal = Lin({("len", key): -1}, 1)            # 1 - len <= 0
        if not bnd.prove(goal, i, "term"):
            return False, ("%s is called at line %d of %s with a text that is not known to be non-empty there; the review of "
                           "this site relied on the caller rejecting an empty piece first" % (body.npath, t["line"], b.npath))
    return True, "argument non-empty at %d call site(s) that the review relied on" % n


PREMISES = {"arg_nonempty": p_arg_nonempty, "ret_position_offset": p_ret_position_offset, "ret_ordered_positions": p_ret_ordered_positions, "callers": p_callers, "ctor_only": p_ctor_only, "ctor_consts": p_ctor_consts, "returns_variant": p_returns_variant}
