"""Whole-program call graph over the extracted bodies (lib + bin + deps).

Nodes are body paths.  Edges: direct calls (resolved instance when rustc
could resolve the trait call, else the declared path), closure creation
(creator -> closure) and closure passing (callee receiving a closure ->
closure).  Calls through `dyn`/fn pointers are over-approximated by edges to
every closure created in the caller."""


class CallGraph:
    def __init__(self, prog, crates=None):
        self.prog = prog
        self.nodes = {}
        for b in prog.bodies:
            if crates and b.crate not in crates:
                continue
            self.nodes.setdefault(b.path, b)
        self.edges = {p: set() for p in self.nodes}
        self.ext = {p: set() for p in self.nodes}      # calls to functions without a body here
        self.sites = {}                                  # (caller, callee) -> [(bb, line)]
        self.send_closures = set()                       # closures passed where a Send bound applies
        for p, b in self.nodes.items():
            for i, blk in enumerate(b.blocks):
                for s in blk["stmts"]:
                    if s["k"] == "assign" and s["rv"]["k"] == "aggregate" and s["rv"].get("ak") == "closure":
                        self.edges[p].add(s["rv"]["closure"])
                t = blk["term"]
                if t["k"] not in ("call", "tailcall"):
                    continue
                c = t["callee"]
                if c.get("indirect"):
                    continue
                names = {c["path"]}
                if c.get("resolved"):
                    names = {c["resolved"]}
                for n in names:
                    if n in self.nodes:
                        self.edges[p].add(n)
                    else:
                        self.ext[p].add(n)
                    self.sites.setdefault((p, n), []).append((i, t["line"]))
                for ca in c.get("closure_args", []):
                    self.edges[p].add(ca["closure"])
                    if ca.get("send"):
                        self.send_closures.add(ca["closure"])

    def reach(self, starts, avoid=()):
        seen = set()
        stack = [s for s in starts if s in self.nodes and s not in avoid]
        while stack:
            x = stack.pop()
            if x in seen:
                continue
            seen.add(x)
            for y in self.edges.get(x, ()):
                if y not in seen and y not in avoid and y in self.nodes:
                    stack.append(y)
        return seen

    def callers_reaching(self, targets_ext=None, targets=None):
        """Nodes from which an external function in targets_ext (or node in
        targets) is reachable."""
        good = set()
        for p in self.nodes:
            if targets_ext and (self.ext[p] & set(targets_ext)):
                good.add(p)
            if targets and p in targets:
                good.add(p)
        changed = True
        while changed:
            changed = False
            for p in self.nodes:
                if p not in good and (self.edges[p] & good):
                    good.add(p)
                    changed = True
        return good
