"""CFG algorithms over a Body's MIR: dominators, post-dominators, reachability
with avoided blocks, natural loops, must-pass-through."""


def _rpo(n, succ, entry=0):
    seen = [False] * n
    order = []
    stack = [(entry, iter(succ[entry]))]
    seen[entry] = True
    while stack:
        node, it = stack[-1]
        adv = False
        for s in it:
            if not seen[s]:
                seen[s] = True
                stack.append((s, iter(succ[s])))
                adv = True
                break
        if not adv:
            order.append(node)
            stack.pop()
    order.reverse()
    return order


def dominators(n, succ, entry=0):
    """Immediate dominators (Cooper-Harvey-Kennedy). Returns list idom
    (idom[entry] = entry, None for unreachable)."""
    order = _rpo(n, succ, entry)
    pos = {b: i for i, b in enumerate(order)}
    pred = [[] for _ in range(n)]
    for b in order:
        for s in succ[b]:
            pred[s].append(b)
    idom = [None] * n
    idom[entry] = entry
    changed = True
    while changed:
        changed = False
        for b in order[1:]:
            new = None
            for p in pred[b]:
                if idom[p] is None or p not in pos:
                    continue
                if new is None:
                    new = p
                else:
                    a, c = p, new
                    while a != c:
                        while pos[a] > pos[c]:
                            a = idom[a]
                        while pos[c] > pos[a]:
                            c = idom[c]
                    new = a
            if new is not None and idom[b] != new:
                idom[b] = new
                changed = True
    return idom


def dominates(idom, a, b):
    """a dominates b?"""
    if idom[b] is None:
        return False
    x = b
    while True:
        if x == a:
            return True
        if idom[x] == x or idom[x] is None:
            return False
        x = idom[x]


def reachable(succ, starts, avoid=()):
    """Blocks reachable from `starts` (inclusive) without entering `avoid`."""
    avoid = set(avoid)
    seen = set()
    stack = [s for s in starts if s not in avoid]
    while stack:
        b = stack.pop()
        if b in seen:
            continue
        seen.add(b)
        for s in succ[b]:
            if s not in seen and s not in avoid:
                stack.append(s)
    return seen


def reachable_after(succ, starts, avoid=()):
    """Blocks reachable by at least one edge from `starts` (starts themselves
    only if on a cycle), not passing through `avoid`."""
    avoid = set(avoid)
    seen = set()
    stack = []
    for s in starts:
        for t in succ[s]:
            if t not in avoid:
                stack.append(t)
    while stack:
        b = stack.pop()
        if b in seen:
            continue
        seen.add(b)
        for s in succ[b]:
            if s not in seen and s not in avoid:
                stack.append(s)
    return seen


def back_edges(n, succ, entry=0):
    idom = dominators(n, succ, entry)
    out = []
    for b in range(n):
        if idom[b] is None:
            continue
        for s in succ[b]:
            if dominates(idom, s, b):
                out.append((b, s))
    return out


def natural_loops(n, succ, entry=0):
    """header -> set(blocks)"""
    pred = [[] for _ in range(n)]
    for b in range(n):
        for s in succ[b]:
            pred[s].append(b)
    loops = {}
    for (tail, head) in back_edges(n, succ, entry):
        body = loops.setdefault(head, {head})
        stack = [tail]
        while stack:
            x = stack.pop()
            if x in body:
                continue
            body.add(x)
            stack.extend(pred[x])
    return loops


class BodyCfg:
    """Cached CFG facts for a Body (normal edges only; cleanup blocks are
    never entered)."""

    def __init__(self, body):
        self.body = body
        self.n = len(body.blocks)
        self.succ = body.successors()
        self.pred = body.predecessors()
        self.idom = dominators(self.n, self.succ, 0)
        self.live = reachable(self.succ, [0])
        self.returns = [b for b in self.live if body.blocks[b]["term"]["k"] == "return"]
        self._loops = None

    def dom(self, a, b):
        return dominates(self.idom, a, b)

    def loops(self):
        if self._loops is None:
            self._loops = natural_loops(self.n, self.succ, 0)
        return self._loops

    def reach(self, starts, avoid=()):
        return reachable(self.succ, starts, avoid)

    def reach_after(self, starts, avoid=()):
        return reachable_after(self.succ, starts, avoid)

    def must_pass(self, frm, to_set, through):
        """Every path from the *end* of block `frm` to any block of `to_set`
        passes through a block of `through` (blocks of `through` that are in
        `to_set` count as passing)."""
        r = reachable_after(self.succ, [frm], avoid=set(through))
        return not (r & (set(to_set) - set(through)))
