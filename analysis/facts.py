"""Loading of the fact files written by the extractor, plus pretty printers.

A `Program` holds every analysed crate (lib `suiron`, bin `query`, optionally
`thread_timer`).  `Body` wraps one function / closure: its MIR (blocks,
statements, terminators, locals) and its typed HIR tree.
"""
import json
import os
import re


def norm_path(p):
    """Normalise a def path: drop lifetimes/generic args so that
    `solution_node::SolutionNode::<'a>::set_no_backtracking` and
    `SolutionNode::set_no_backtracking` compare predictably."""
    p = re.sub(r"::<[^<>]*(<[^<>]*>[^<>]*)*>", "", p)
    p = re.sub(r"<[^<>]*(<[^<>]*>[^<>]*)*>", "", p) if p.startswith("<") is False else p
    return p


class Body:
    def __init__(self, crate, j):
        self.crate = crate
        self.j = j
        self.path = j["path"]
        self.npath = norm_path(self.path)
        self.name = self.npath.split("::")[-1]
        self.kind = j["kind"]
        self.file = j["file"]
        self.line = j["line"]
        self.mir = j["mir"]
        self.hir = j["hir"]
        self.blocks = self.mir["blocks"]
        self.locals = self.mir["locals"]
        self.parent = j.get("parent")
        self.vis = j.get("vis", "")
        self.ret_ty = j.get("ret_ty", "")
        self._succ = None
        self._pred = None

    @property
    def is_pub(self):
        return "Public" in self.vis

    def __repr__(self):
        return "<Body %s>" % self.path

    # ---- CFG helpers -------------------------------------------------
    def term(self, bb):
        return self.blocks[bb]["term"]

    def succs(self, bb, unwind=False):
        t = self.blocks[bb]["term"]
        k = t["k"]
        out = []
        if k == "goto":
            out = [t["target"]]
        elif k == "switch":
            out = [x[1] for x in t["targets"]] + [t["otherwise"]]
        elif k in ("call", "drop", "assert"):
            if t.get("target") is not None:
                out = [t["target"]]
            if unwind and t.get("unwind") is not None:
                out.append(t["unwind"])
        return out

    def successors(self):
        if self._succ is None:
            self._succ = [self.succs(b) for b in range(len(self.blocks))]
        return self._succ

    def predecessors(self):
        if self._pred is None:
            pred = [[] for _ in self.blocks]
            for b, ss in enumerate(self.successors()):
                for s in ss:
                    pred[s].append(b)
            self._pred = pred
        return self._pred

    def local_name(self, l):
        d = self.locals[l]
        return d.get("name") or ("_%d" % l)

    def calls(self):
        """Yield (bb, terminator) for every Call terminator (non-cleanup)."""
        for i, b in enumerate(self.blocks):
            if b["cleanup"]:
                continue
            t = b["term"]
            if t["k"] == "call":
                yield i, t


def callee_name(t):
    """Best name for the function called by a Call terminator: the resolved
    instance when the trait call could be resolved, else the declared path."""
    c = t["callee"]
    if c.get("indirect"):
        return "<indirect>"
    return c.get("resolved") or c["path"]


def callee_decl(t):
    c = t["callee"]
    if c.get("indirect"):
        return "<indirect>"
    return c["path"]


def _hir_strs(j, out=None):
    """String literals in a typed-HIR JSON tree, in order."""
    if out is None:
        out = []
    if isinstance(j, dict):
        if j.get("k") == "Lit" and isinstance(j.get("lit"), dict) and j["lit"].get("lk") == "str":
            out.append(j["lit"]["v"])
        for v in j.values():
            _hir_strs(v, out)
    elif isinstance(j, list):
        for v in j:
            _hir_strs(v, out)
    return out


def _hir_name_fn_pairs(j, out=None):
    """(string literal, fn path) for every tuple `("name", some_fn)` in a typed-HIR tree (registry tables)."""
    if out is None:
        out = []
    if isinstance(j, dict):
        if j.get("k") == "Tup" and isinstance(j.get("elems"), list) and len(j["elems"]) == 2:
            a, b = j["elems"]
            if isinstance(a, dict) and a.get("k") == "Lit" and (a.get("lit") or {}).get("lk") == "str" and isinstance(b, dict) and \
                    b.get("k") == "Path" and (b.get("path") or {}).get("def_kind") in ("Fn", "AssocFn"):
                out.append((a["lit"]["v"], b["path"]["path"]))
        for v in j.values():
            _hir_name_fn_pairs(v, out)
    elif isinstance(j, list):
        for v in j:
            _hir_name_fn_pairs(v, out)
    return out


def _mir_consts(j, out):
    if isinstance(j, dict):
        if j.get("k") == "const" and isinstance(j.get("repr"), str):
            out.append(j["repr"])
        for v in j.values():
            _mir_consts(v, out)
    elif isinstance(j, list):
        for v in j:
            _mir_consts(v, out)
    return out


class Program:
    def __init__(self, facts_dir):
        self.crates = {}
        self.bodies = []
        self.by_path = {}
        for fn in sorted(os.listdir(facts_dir)):
            if not fn.endswith(".json"):
                continue
            with open(os.path.join(facts_dir, fn)) as f:
                j = json.load(f)
            key = fn[:-5]
            self.crates[key] = j
            for bj in j["bodies"]:
                b = Body(key, bj)
                self.bodies.append(b)
                self.by_path.setdefault((key, b.path), b)
        self.lib = self.crates.get("suiron-lib")
        # named constants of the lib: path -> string literals of the initialiser (in source order)
        self.const_strs = {}
        self.const_pairs = {}       # path -> [(string literal, function path)] for tables of (name, fn) tuples
        for cj in (self.lib or {}).get("consts", []):
            self.const_strs[cj["path"]] = _hir_strs(cj.get("hir"))
            pairs = _hir_name_fn_pairs(cj.get("hir"))
            if pairs:
                self.const_pairs[cj["path"]] = pairs

    def consts_mentioned(self, body):
        """Named constants a function (with its closures) mentions."""
        out = []
        for b in [body] + [c for c in self.lib_bodies() if c.kind == "Closure" and (c.parent == body.path or c.path.startswith(body.path + "::"))]:
            for r in _mir_consts(b.mir, []):
                if r in self.const_strs and r not in out:
                    out.append(r)
        return out

    def private_callees(self, body, depth=2):
        """Private functions a function calls (transitively, to a small depth): what it may have been split into."""
        idx = {b.path: b for b in self.lib_bodies()}
        seen, todo = [], [(body, 0)]
        while todo:
            fb, d = todo.pop()
            for bb, t in fb.calls():
                nm = t["callee"].get("resolved") or t["callee"].get("path") or ""
                hb = idx.get(nm)
                if hb is not None and not hb.is_pub and hb.kind in ("Fn", "AssocFn") and hb not in seen and hb is not body:
                    seen.append(hb)
                    if d + 1 < depth:
                        todo.append((hb, d + 1))
        return seen

    def str_literals(self, body):
        """String literals a function can see: those in its own MIR, in the closures defined in it and in the private
        helpers it calls, plus the contents of the named constants they mention (a literal moved into a `const` table
        or a helper stays visible)."""
        out = []
        roots = [body] + self.private_callees(body)
        for b in roots + [c for c in self.lib_bodies() if c.kind == "Closure" and any(c.parent == r.path or c.path.startswith(r.path + "::") for r in roots)]:
            for r in _mir_consts(b.mir, []):
                if r.startswith('"'):
                    out.append(r.strip('"'))
                elif r in self.const_strs:
                    out.extend(self.const_strs[r])
        return out

    def lib_bodies(self):
        return [b for b in self.bodies if b.crate == "suiron-lib"]

    def find(self, suffix, crate="suiron-lib"):
        """Bodies whose normalised path ends with `suffix` (on a `::` boundary)."""
        out = []
        for b in self.bodies:
            if crate and b.crate != crate:
                continue
            if b.npath == suffix or b.npath.endswith("::" + suffix):
                out.append(b)
        return out

    def one(self, suffix, crate="suiron-lib"):
        r = self.find(suffix, crate)
        if len(r) != 1:
            return None
        return r[0]

    def adt(self, name, crate="suiron-lib"):
        for a in self.crates[crate]["adts"]:
            if a["path"] == name or a["path"].endswith("::" + name):
                return a
        return None


# ---------------------------------------------------------------------
# pretty printing (debugging aid and replay files)

def fmt_place(body, p):
    s = body.local_name(p["l"]) if body else "_%d" % p["l"]
    for e in p["p"]:
        if e == "deref":
            s = "(*%s)" % s
        elif isinstance(e, dict) and "field" in e:
            s = "%s.%s" % (s, e["field"])
        elif isinstance(e, dict) and "downcast" in e:
            s = "(%s as %s)" % (s, e["downcast"])
        elif isinstance(e, dict) and "index" in e:
            s = "%s[%s]" % (s, body.local_name(e["index"]) if body else "_%d" % e["index"])
        elif isinstance(e, dict) and "constindex" in e:
            s = "%s[#%d]" % (s, e["constindex"])
        else:
            s = "%s.<%s>" % (s, e)
    return s


def fmt_op(body, o):
    k = o["k"]
    if k in ("copy", "move"):
        return ("move " if k == "move" else "") + fmt_place(body, o["place"])
    if k == "const":
        if "static" in o:
            return "&static " + o["static"]
        if "fn" in o:
            return "fn " + o["fn"]
        return o["repr"]
    return o.get("repr", "?")


def fmt_rv(body, rv):
    k = rv["k"]
    if k == "use":
        return fmt_op(body, rv["op"])
    if k == "ref":
        return "&%s %s" % (rv["bk"], fmt_place(body, rv["place"]))
    if k == "rawptr":
        return "&raw %s %s" % (rv["pk"], fmt_place(body, rv["place"]))
    if k == "cast":
        return "%s as %s (%s)" % (fmt_op(body, rv["op"]), rv["ty"], rv["ck"])
    if k == "binop":
        return "%s(%s, %s)" % (rv["op"], fmt_op(body, rv["l"]), fmt_op(body, rv["r"]))
    if k == "unop":
        return "%s(%s)" % (rv["op"], fmt_op(body, rv["x"]))
    if k == "discriminant":
        return "discriminant(%s)" % fmt_place(body, rv["place"])
    if k == "aggregate":
        if rv["ak"] == "adt":
            return "%s::%s{%s}" % (rv["adt"], rv["variant"], ", ".join(
                "%s: %s" % (f, fmt_op(body, o)) for f, o in zip(rv["fields"], rv["ops"])))
        return "%s(%s)" % (rv["ak"], ", ".join(fmt_op(body, o) for o in rv["ops"]))
    if k == "repeat":
        return "[%s; %s]" % (fmt_op(body, rv["op"]), rv["n"])
    return rv.get("repr", k)


def fmt_term(body, t):
    k = t["k"]
    if k == "goto":
        return "goto bb%d" % t["target"]
    if k == "switch":
        return "switch %s [%s, otherwise: bb%d]" % (
            fmt_op(body, t["discr"]), ", ".join("%d: bb%d" % (v, b) for v, b in t["targets"]), t["otherwise"])
    if k == "call":
        return "%s = %s(%s) -> %s" % (
            fmt_place(body, t["dest"]), callee_name(t), ", ".join(fmt_op(body, a) for a in t["args"]),
            "bb%d" % t["target"] if t["target"] is not None else "!")
    if k == "drop":
        return "drop(%s) -> bb%d" % (fmt_place(body, t["place"]), t["target"])
    if k == "assert":
        m = t["msg"]
        return "assert(%s == %s, %s) -> bb%d" % (fmt_op(body, t["cond"]), t["expected"], m["k"], t["target"])
    return k


def dump_mir(body, cleanup=False):
    out = ["fn %s  [%s:%d]" % (body.path, body.file, body.line)]
    for i, l in enumerate(body.locals):
        out.append("  let %s: %s" % (body.local_name(i) + ("(_%d)" % i if l.get("name") else ""), l["s"]))
    for i, b in enumerate(body.blocks):
        if b["cleanup"] and not cleanup:
            continue
        out.append(" bb%d:%s" % (i, " (cleanup)" if b["cleanup"] else ""))
        for s in b["stmts"]:
            if s["k"] == "assign":
                out.append("    %s = %s;   // L%d" % (fmt_place(body, s["place"]), fmt_rv(body, s["rv"]), s["line"]))
            else:
                out.append("    %s" % s["k"])
        out.append("    %s;   // L%d" % (fmt_term(body, b["term"]), b["term"]["line"]))
    return "\n".join(out)


if __name__ == "__main__":
    import sys
    prog = Program(sys.argv[1])
    for b in prog.find(sys.argv[2], crate=None):
        if len(sys.argv) > 3 and sys.argv[3] == "hir":
            print(json.dumps(b.hir, indent=1))
        else:
            print(dump_mir(b))
