"""Finite-domain evaluation of comparison conditions.

Values are touched only through comparisons, so for two operands L, R the
outcome of any condition built from  < <= > >= == != cmp partial_cmp ! && ||
is a function of the *ordering* of (L, R) alone.  `ev` evaluates a
provenance term (see sym.py) under one ordering in
{Less, Equal, Greater, Unordered} without knowing L and R.
"""
from sym import strip

ORDERINGS = ("Less", "Equal", "Greater", "Unordered")
FLIP = {"Less": "Greater", "Greater": "Less", "Equal": "Equal", "Unordered": "Unordered"}

OPS = {
    "Eq": lambda o: o == "Equal",
    "Ne": lambda o: o != "Equal",
    "Lt": lambda o: o == "Less",
    "Le": lambda o: o in ("Less", "Equal"),
    "Gt": lambda o: o == "Greater",
    "Ge": lambda o: o in ("Greater", "Equal"),
}
METHOD_OPS = {"eq": "Eq", "ne": "Ne", "lt": "Lt", "le": "Le", "gt": "Gt", "ge": "Ge"}


class Unknown(Exception):
    pass


def uncast(t, casts=None):
    """Strip numeric casts / clones; record the casts seen."""
    while True:
        t = strip(t)
        if isinstance(t, tuple) and t[0] == "cast":
            if casts is not None:
                casts.append((t[2], t[3]))
            t = t[1]
            continue
        return t


def side(t, L, R, casts=None):
    u = uncast(t, casts)
    if u == uncast(L):
        return "L"
    if u == uncast(R):
        return "R"
    return None


def rel(a, b, L, R, o, casts=None):
    """Ordering of (a, b) given ordering o of (L, R)."""
    sa, sb = side(a, L, R, casts), side(b, L, R, casts)
    if sa == "L" and sb == "R":
        return o
    if sa == "R" and sb == "L":
        return FLIP[o]
    if sa is not None and sa == sb:
        return "Equal"
    raise Unknown("operands are not the two compared values")


def ev(t, L, R, o, casts=None):
    """Evaluate term t under ordering o. Returns bool, an ordering name,
    ("some", ordering) / "none" for partial_cmp results."""
    t = strip(t)
    k = t[0]
    if k == "const":
        if t[1] == "bool" and t[3] is not None:
            return bool(t[3])
        last = str(t[2]).split("::")[-1]
        if last in ("Less", "Equal", "Greater") and ("Ordering" in str(t[1]) or "Ordering" in str(t[2])):
            return last
        raise Unknown("constant %s" % (t[2],))
    if k == "field" and t[2] == "Some.0":
        v = ev(t[1], L, R, o, casts)       # payload of a partial_cmp / Some(cmp) result
        if isinstance(v, tuple) and v[0] == "some":
            return v[1]
        raise Unknown("payload of %s" % (v,))
    if k == "discr":
        v = ev(t[1], L, R, o, casts)       # discriminant of an Ordering: identified with the ordering itself
        if isinstance(v, str) and v in ("Less", "Equal", "Greater"):
            return v
        raise Unknown("discriminant of %s" % (v,))
    if k == "agg":
        if t[1].endswith("Ordering"):
            return t[2]
        if t[1].endswith("Option"):
            if t[2] == "None":
                return "none"
            inner = dict(t[3]).get("0")
            return ("some", ev(inner, L, R, o, casts))
        raise Unknown("aggregate %s" % t[1])
    if k == "unop" and t[1] == "Not":
        v = ev(t[2], L, R, o, casts)
        if isinstance(v, bool):
            return not v
        raise Unknown("! of non-bool")
    if k == "binop":
        op = t[1]
        if op in OPS:
            try:
                return OPS[op](rel(t[2], t[3], L, R, o, casts))
            except Unknown:
                # comparison of two evaluated values (e.g. cmp result == Less)
                va, vb = ev(t[2], L, R, o, casts), ev(t[3], L, R, o, casts)
                if op == "Eq":
                    return va == vb
                if op == "Ne":
                    return va != vb
                raise
        if op in ("BitAnd", "BitOr"):
            va, vb = ev(t[2], L, R, o, casts), ev(t[3], L, R, o, casts)
            return (va and vb) if op == "BitAnd" else (va or vb)
        raise Unknown("binop %s" % op)
    if k == "call":
        name = t[1]
        last = name.split("::")[-1]
        args = t[2]
        if last in METHOD_OPS and len(args) == 2:
            try:
                return OPS[METHOD_OPS[last]](rel(args[0], args[1], L, R, o, casts))
            except Unknown:
                va, vb = ev(args[0], L, R, o, casts), ev(args[1], L, R, o, casts)
                if last == "eq":
                    return va == vb
                if last == "ne":
                    return va != vb
                raise
        if last == "cmp" and len(args) == 2:
            r = rel(args[0], args[1], L, R, o, casts)
            if r == "Unordered":
                raise Unknown("cmp on unordered operands")
            return r
        if last == "partial_cmp" and len(args) == 2:
            r = rel(args[0], args[1], L, R, o, casts)
            return "none" if r == "Unordered" else ("some", r)
        if last == "total_cmp":
            raise Unknown("f64::total_cmp is the IEEE total order (-0.0 < 0.0, NaN ordered), not the numeric ordering")
        if last in ("is_lt", "is_le", "is_gt", "is_ge", "is_eq", "is_ne") and len(args) == 1:
            v = ev(args[0], L, R, o, casts)
            return OPS[{"is_lt": "Lt", "is_le": "Le", "is_gt": "Gt", "is_ge": "Ge", "is_eq": "Eq", "is_ne": "Ne"}[last]](v)
        raise Unknown("call %s" % name)
    raise Unknown("term kind %s" % k)


def path_feasible(decisions, L, R, o, casts=None):
    """decisions: list of (cond term, value).  True/False; raises Unknown."""
    for c, v in decisions:
        if c[0] == "variant":
            # match on a computed ordering: (("variant", term), "Less")
            val = ev(c[1], L, R, o, casts)
            if isinstance(val, tuple):
                val = "Some"
            elif val == "none":
                val = "None"
            if isinstance(v, tuple):
                if val not in v:
                    return False
            elif val != v:
                return False
            continue
        val = ev(c, L, R, o, casts)
        if val != v:
            return False
    return True
