"""Fold shapes: what a reduction computes, read through wrapper helpers and closure forwarding.

shape(prog, term) resolves a value term to
    {"src": iterator source term, "init": initial accumulator term, "op": binop name, "order": bool, "ety": element type}
following (a) `Iterator::fold(iter, init, closure)`; (b) a crate function whose only returning path is itself such a
shape in terms of its parameters (arguments substituted); (c) fold closures that apply a captured / forwarded closure
to (accumulator, element)."""
from sym import Walker, strip, show

FN_CALLS = ("::Fn::call", "::FnMut::call_mut", "::FnOnce::call_once")


def tmap(t, f):
    """Rebuild a term bottom-up; f(sub-term) may return a replacement (or None to keep)."""
    if not isinstance(t, tuple):
        return t
    r = f(t)
    if r is not None:
        return r
    return tuple(tmap(x, f) for x in t)


def subst(t, env):
    def f(x):
        if len(x) == 3 and x[0] == "param" and isinstance(x[1], int):
            return env.get(x[1], x)
        return None
    return tmap(t, f)


def body_of(prog, path):
    return next((b for b in prog.lib_bodies() if b.path == path), None)


def single_return(prog, path):
    """The return term of a crate function that has exactly one returning path and takes no decision; else None."""
    b = body_of(prog, path)
    if b is None:
        return None, None
    rets = [p for p in Walker(b, max_visits=2).paths() if p.end == "return"]
    if len(rets) != 1 or rets[0].decisions:
        return b, None
    return b, rets[0].ret


def closure_op(prog, clo, depth=0, inline=None):
    """Set of (op, element type, operands are (accumulator, element)) over the returning paths of a fold closure;
    a closure that only forwards (acc, x) to another closure (captured, possibly a parameter substituted by the
    caller) is followed."""
    clo = strip(clo)
    if clo[0] != "closure" or depth > 4:
        return {("?", show(clo)[:60], False)}
    b = body_of(prog, clo[1])
    if b is None:
        return {("?", clo[1], False)}
    caps = clo[2] if len(clo) > 2 else ()
    res = set()
    # captures resolve to the enclosing function's terms (so `self.apply(acc, x)` with a known `self` is walked into)
    for p in Walker(b, max_visits=2, inline=inline).paths(init_env={1: clo}):
        if p.end != "return":
            continue
        r = strip(p.ret)
        if r[0] == "field" and r[2] == "0" and r[1][0] == "binop":
            r = r[1]
        if r[0] == "binop":
            l, rr = strip(r[2]), strip(r[3])
            ok = l[0] == "param" and l[1] == 2 and rr[0] == "param" and rr[1] == 3
            ety = b.locals[2]["s"]
            # a generic wrapper closure that forwards to a concrete one (walked into): the concrete closure's type
            for e in p.calls():
                if e.get("modelled") and any(e["callee"].endswith(x) for x in FN_CALLS) and e["args"]:
                    inner = strip(e["args"][0])
                    ib = body_of(prog, inner[1]) if inner[0] == "closure" else None
                    if ib is not None and len(ib.locals) > 2:
                        ety = ib.locals[2]["s"]
            res.add((r[1].replace("WithOverflow", ""), ety, ok))
            continue
        if r[0] == "call" and any(r[1].endswith(x) for x in FN_CALLS) and len(r[2]) == 2:
            f, args = strip(r[2][0]), strip(r[2][1])
            inner = None
            if f[0] == "field" and strip(f[1])[0] == "param" and strip(f[1])[1] == 1 and f[2].isdigit() and int(f[2]) < len(caps):
                inner = strip(caps[int(f[2])])
            if inner is not None and inner[0] == "closure" and args[0] == "tuple" and len(args[1]) == 2:
                a, c = strip(args[1][0]), strip(args[1][1])
                fwd = a[0] == "param" and a[1] == 2 and c[0] == "param" and c[1] == 3
                for op, ety, ok in closure_op(prog, inner, depth + 1, inline=inline):
                    res.add((op, ety, ok and fwd))
                continue
        res.add(("?", show(r)[:60], False))
    return res


def shape(prog, val, depth=0, via=()):
    """Returns (shape dict, None) or (None, reason)."""
    val = strip(val)
    if val[0] != "call":
        return None, "result is %s, not a fold" % show(val)[:80]
    if val[1].endswith("::fold") and len(val[2]) == 3:
        return {"src": val[2][0], "init": strip(val[2][1]), "clo": strip(val[2][2]), "via": via}, None
    if depth < 3:
        b, ret = single_return(prog, val[1])
        if b is not None and ret is not None:
            env = {i + 1: a for i, a in enumerate(val[2])}
            return shape(prog, subst(ret, env), depth + 1, via + (b.path,))
    return None, "result is %s, not a fold" % show(val)[:80]


def element_outputs(prog, F, inline=None):
    """What a per-element converter F(collection) -> Vec puts into its result: list of (value term, drop?) over
    (a) `push` calls on its paths (loop form), (b) the returns of the closure of `iter().map(c).collect()` /
    `iter().filter_map(c).collect()` (iterator form; None = element dropped).  Second result: reason when the
    form is not understood."""
    outs = []
    ps = Walker(F, max_visits=2, inline=inline).paths()
    for p in ps:
        for e in p.calls():
            if e["callee"].endswith("::push"):
                outs.append(strip(e["args"][1]))
    if outs:
        return outs, None
    rets = [strip(p.ret) for p in ps if p.end == "return"]
    if len(rets) != 1:
        return [], "no push and %d returning paths" % len(rets)
    r = rets[0]
    if not (r[0] == "call" and r[1].endswith("::collect") and r[2]):
        return [], "result is %s" % show(r)[:80]
    x = strip(r[2][0])
    if not (x[0] == "call" and (x[1].endswith("::map") or x[1].endswith("::filter_map")) and len(x[2]) == 2):
        return [], "collects %s" % show(x)[:80]
    src, clo = strip(x[2][0]), strip(x[2][1])
    if not (src[0] == "call" and (src[1].endswith("::iter") or src[1].endswith("::into_iter")) and strip(src[2][0])[0] == "param"):
        return [], "iterates %s" % show(src)[:80]
    if clo[0] != "closure" or body_of(prog, clo[1]) is None:
        return [], "maps with %s" % show(clo)[:60]
    fm = x[1].endswith("::filter_map")
    # the closure's element parameter stays ("param", 2, ..); its captures resolve to the enclosing function's terms
    for p in Walker(body_of(prog, clo[1]), max_visits=2).paths(init_env={1: clo}):
        if p.end != "return":
            continue
        v = strip(p.ret)
        if fm:
            if v[0] == "agg" and v[2] == "None":
                continue
            if v[0] == "agg" and v[2] == "Some":
                v = strip(dict(v[3])["0"])
            else:
                return [], "filter_map closure returns %s" % show(v)[:60]
        outs.append(v)
    return outs, None


def element_map(prog, F, inline=None):
    """How a function F(collection, ..) -> Vec maps elements: {"pairs": [(value term, is_elem, path, push event or None)], "colls": collection term,
    "err": reason or None}.  `is_elem(t)` tells whether term t is the element being processed (the loop variable of
    `for x in coll { out.push(f(x)) }`, or the closure parameter of `coll.into_iter().map(|x| f(x)).collect()`);
    only forward, complete iterations over one collection are accepted."""
    import iters
    ps = Walker(F, max_visits=2, inline=inline).paths()
    pairs = []
    colls = set()
    for p in ps:
        for e in p.calls():
            if e["callee"].endswith("::push"):
                def is_elem(t, _p=p):
                    r = iters.resolve(t)
                    if r is not None and r[0] == "elem" and r[3] == 0:
                        colls.add(r[1])
                        return True
                    return False
                pairs.append((strip(e["args"][1]), is_elem, p, e))
    if pairs:
        return {"pairs": pairs, "colls": colls, "err": None, "form": "loop"}
    # `.. .map(f).collect()` evaluated somewhere in the function (returned, or kept in a local)
    cols = {}
    for p in ps:
        for e in p.calls():
            if e["callee"].endswith("::collect") and e["args"]:
                cols[strip(e["args"][0])] = e
    if len(cols) != 1:
        return {"pairs": [], "colls": colls, "err": "no push and %d collect() calls" % len(cols)}
    x = list(cols)[0]
    if not (x[0] == "call" and x[1].endswith("::map") and len(x[2]) == 2):
        return {"pairs": [], "colls": colls, "err": "collects %s" % show(x)[:80]}
    lay = iters.layout(x[2][0])
    clo = strip(x[2][1])
    if lay is None or lay[0] != "elem" or lay[2] != 0:
        return {"pairs": [], "colls": colls, "err": "maps over %s" % show(x[2][0])[:80]}
    colls.add(lay[1])
    if clo[0] != "closure" or body_of(prog, clo[1]) is None:
        return {"pairs": [], "colls": colls, "err": "maps with %s" % show(clo)[:60]}
    cb = body_of(prog, clo[1])
    for p in Walker(cb, max_visits=2, inline=inline).paths(init_env={1: clo}):
        if p.end != "return":
            continue
        pairs.append((strip(p.ret), lambda t: strip(t)[0] == "param" and strip(t)[1] == 2, p, None))
    return {"pairs": pairs, "colls": colls, "err": None, "form": "map"}


def map_collect(prog, term, inline=None):
    """term = `src.map(closure).collect()`: returns (collection iterated (forward, complete) or None, [(value the closure
    returns, is_elem)]) with the closure's captures resolved to the enclosing function's terms; None if not that shape."""
    import iters
    t = strip(term)
    if not (t[0] == "call" and t[1].endswith("::collect") and t[2]):
        return None
    x = strip(t[2][0])
    if not (x[0] == "call" and x[1].endswith("::map") and len(x[2]) == 2):
        return None
    lay = iters.layout(x[2][0])
    clo = strip(x[2][1])
    if lay is None or lay[0] != "elem" or lay[2] != 0 or clo[0] != "closure" or body_of(prog, clo[1]) is None:
        return None
    pairs = []
    for p in Walker(body_of(prog, clo[1]), max_visits=2, inline=inline).paths(init_env={1: clo}):
        if p.end == "return":
            pairs.append((strip(p.ret), lambda t_: strip(t_)[0] == "param" and strip(t_)[1] == 2))
    return lay[1], pairs
