"""Shared analysis of the built-in *function* dispatch (C12, C13):
name -> evaluator, and the shape of every return of unify_sfunction."""
from sym import Walker, strip, show, mentions


def _lit(path):
    lit = None
    for c, v, bb in path.decisions:
        if c[0] == "call" and c[1].endswith("::eq") and v is True:
            for a in c[2]:
                if a[0] == "const" and a[2].startswith('"'):
                    lit = a[2].strip('"')
    return lit


def _is_eval(t):
    t = strip(t)
    return t[0] == "call" and t[1].split("::")[-1].startswith("evaluate_")


def dispatch_of(prog, body):
    """If `body` maps function names to evaluate_* calls on its own (terms, ss) parameters, return
    {name: evaluator path}; else {}."""
    out = {}
    try:
        ps = Walker(body, max_visits=2, max_paths=20000).paths()
    except Exception:
        return {}
    for p in ps:
        if p.end != "return":
            continue
        lit = _lit(p)
        if lit is None:
            continue
        r = strip(p.ret)
        cands = [r]
        if r[0] == "agg" and r[3]:
            cands.append(strip(dict(r[3]).get("0")))
        if r[0] == "call" and r[1].endswith("Unifiable::unify"):
            cands.append(strip(r[2][0]))
        for c in cands:
            if c is not None and _is_eval(c) and all(strip(a)[0] == "param" for a in c[2][:2]):
                out[lit] = c[1]
    return out


def analyse(prog, ctx=None):
    """Returns dict(us, dispatcher, name2eval, returns=[(label, ok, why)])."""
    US = prog.one("built_in_functions::unify_sfunction")
    if US is None:
        return None
    res = {"us": US, "dispatcher": None, "name2eval": {}, "returns": []}
    n2e = dispatch_of(prog, US)
    D = US
    table = None
    if not n2e:
        # a registry: a const table of (name, evaluator) pairs looked up by unify_sfunction or a private helper of it
        cand = [US] + [b for b in prog.lib_bodies() if not b.is_pub and b.kind == "Fn" and
                       any((t["callee"].get("resolved") or t["callee"].get("path") or "") == b.path for bb, t in US.calls())]
        for fb in cand:
            for cpath in prog.consts_mentioned(fb):
                prs = [(n, f) for n, f in prog.const_pairs.get(cpath, []) if f.split("::")[-1].startswith("evaluate_")]
                if len(prs) >= 4:
                    n2e, table = dict(prs), cpath
                    res["registry"] = cpath
    if not n2e:
        # a helper called by unify_sfunction does the dispatch
        for bb, t in US.calls():
            nm = t["callee"].get("resolved") or t["callee"].get("path") or ""
            h = next((b for b in prog.lib_bodies() if b.path == nm), None)
            if h is not None and h is not US:
                d2 = dispatch_of(prog, h)
                if len(d2) >= 4:
                    n2e, D = d2, h
    res["dispatcher"], res["name2eval"] = D, n2e
    oth = ("param", 3, US.locals[3].get("name") or "")
    ssp = ("param", 4, US.locals[4].get("name") or "")
    terms = ("param", 2, US.locals[2].get("name") or "")

    def own_value(t):
        """t is the value of *this* function term: evaluate_X(terms, ss) or the dispatcher's payload for (name, terms, ss)."""
        t = strip(t)
        if _is_eval(t):
            return len(t[2]) >= 2 and strip(t[2][0]) == terms and strip(t[2][1]) == ssp
        if table is not None and t[0] == "call" and t[1] == "<indirect>":
            # the evaluator found in the registry, applied to this term's own arguments
            return len(t[2]) == 2 and strip(t[2][0]) == terms and strip(t[2][1]) == ssp
        if t[0] == "field" and t[2] in ("Some.0", "Ok.0"):
            c = strip(t[1])
            if c[0] == "call" and D is not US and c[1] == D.path:
                return terms in [strip(a) for a in c[2]] and ssp in [strip(a) for a in c[2]]
        return False
    ps = Walker(US, max_visits=2, max_paths=50000).paths()
    if ctx is not None:
        ctx.stats["paths_walked"] += len(ps)
    for p in ps:
        if p.end != "return":
            continue
        r = p.ret
        label = _lit(p) or "path@bb%d" % p.blocks[-1]
        if r[0] == "agg" and r[2] == "None":
            # allowed only when the name is unknown: no literal matched here, and the dispatcher (if any) said None
            matched = _lit(p) is not None
            evaluated = any(_is_eval(e["result"]) for e in p.calls() if "result" in e)
            if matched or evaluated:
                res["returns"].append((label, False, "returns None although a function was recognised / evaluated"))
            continue
        if r[0] == "call" and "from_residual" in r[1]:
            continue       # `?` on the dispatcher's None: unknown function name
        ok = r[0] == "call" and r[1].endswith("Unifiable::unify") and strip(r[2][1]) == oth and strip(r[2][2]) == ssp \
            and own_value(r[2][0])
        res["returns"].append((label, ok, "returns %s; required <value of this function>.unify(other, ss)" % show(r)[:150]))
    return res
