"""Which symbol does an infix scanner recognise for each Infix variant it returns?

For every returning path of `check_infix` / `check_arithmetic_infix` that yields (Infix::V, index): the characters the
path established at offsets 0, 1, 2 from the returned index, whether the test was written `c == '+'`, as a `match` on the
character (a switch), or on a copy obtained through a helper that is walked into."""
from sym import Walker, strip


def char_facts(path):
    """[(term, character)] for every equality between a term and a character constant established on the path."""
    out = []
    for e in path.events:
        if e["k"] != "branch":
            continue
        c, v = e["cond"], e["value"]
        if c[0] == "binop" and c[1] in ("Eq", "Ne") and isinstance(v, bool) and (v is True) == (c[1] == "Eq"):
            a, b = c[2], c[3]
            if b[0] == "const" and b[1] == "char" and b[3] is not None:
                out.append((strip(a), chr(b[3])))
            elif a[0] == "const" and a[1] == "char" and a[3] is not None:
                out.append((strip(b), chr(a[3])))
        elif c[0] not in ("variant", "binop", "unop") and isinstance(v, int) and not isinstance(v, bool) and 0 < v < 0x110000:
            out.append((strip(c), chr(v)))      # `match ch { '+' => .. }`: a switch on the character's value
    return out


def offset_from(pos, idx):
    pos = strip(pos)
    if pos == idx:
        return 0
    if pos[0] == "binop" and pos[1] == "Add" and strip(pos[2]) == idx and pos[3][0] == "const":
        return pos[3][3]
    return None


def symbols(body, inline=None, max_paths=400000, ctx=None):
    """{symbol: set(Infix variants returned with it)}"""
    from sym import lookup
    out = {}
    ps = Walker(body, max_visits=2, max_paths=max_paths, inline=inline).paths()
    if ctx is not None:
        ctx.stats["paths_walked"] += len(ps)
    for p in ps:
        if p.end != "return" or p.ret[0] != "tuple":
            continue
        v = p.ret[1][0]
        if v[0] != "agg" or v[2] == "None":
            continue
        idx = strip(p.ret[1][1])
        at = {}
        for term, ch in char_facts(p):
            lk = lookup(term)
            if lk is None:
                continue
            off = offset_from(lk[1], idx)
            if off is not None:
                at[off] = ch
        sym = ""
        for off in (0, 1, 2):
            c = at.get(off)
            if c is None or c == " ":
                break
            sym += c
        if sym:
            out.setdefault(sym, set()).add(v[2])
    return out


def left_right_split(ctx, rule):
    """get_left_and_right returns (term parsed from the text before the symbol, term parsed from the text after it).
    Shared by C12/R2 and C14/R4: both the arithmetic and the comparison infix forms take their operands from it."""
    from sym import mentions
    prog = ctx.prog
    GL = prog.one("parse_goals::get_left_and_right")
    if GL is None:
        ctx.missing(rule, "get_left_and_right")
        return
    ctx.fn(GL)
    import inline
    okg, n = True, 0
    for p in Walker(GL, max_visits=2, inline=inline.helpers(prog)).paths():
        if p.end != "return" or p.ret[0] != "agg" or p.ret[2] != "Ok":
            continue
        n += 1
        tup = strip(dict(p.ret[3]).get("0"))
        if tup[0] != "tuple" or len(tup[1]) != 2:
            okg = False
            continue

        def side(t):
            # which slice of the characters a term was parsed from: "before" (..index) or "after" (index+size..)
            if mentions(t, lambda x: x[0] == "agg" and x[1].endswith("RangeFrom")):
                return "after"
            if mentions(t, lambda x: x[0] == "agg" and x[1].endswith("ops::RangeTo")):
                return "before"
            if mentions(t, lambda x: x[0] == "agg" and x[1].endswith("ops::Range") and dict(x[3]).get("start", ("", "", "", None))[3] == 0):
                return "before"
            return "?"
        if (side(tup[1][0]), side(tup[1][1])) != ("before", "after"):
            okg = False
    ctx.ob(rule, "left-right-split", okg and n > 0, ctx.where(GL),
           "get_left_and_right returns (term parsed from the text before the symbol, term parsed from the text after it)")
