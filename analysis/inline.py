"""Inline policies for the path walker (sym.Walker(inline=...)).

A rule that reasons about what one function does on its paths should not depend on whether part of that function was
moved into a helper.  `helpers(prog, keep)` inlines every crate-local function or method except the anchors the rule
itself names (`keep`: path suffixes), closures, public API functions (stable anchors) and large bodies."""


def helpers(prog, keep=(), max_blocks=120, private_only=True):
    idx = {}
    for b in prog.lib_bodies():
        if b.kind in ("Fn", "AssocFn"):
            idx.setdefault(b.path, b)

    closures = {b.path: b for b in prog.lib_bodies() if b.kind == "Closure"}

    def closure(path):
        """Body of a closure, or of a crate function used as a function value (`map(f)`); the walker applies it to
        the payload when it models an Option / Result combinator."""
        return closures.get(path) or policy(path)

    def policy(name):
        b = idx.get(name)
        if b is None:
            return None
        for k in keep:
            if name.endswith(k):
                return None
        if len(b.blocks) > max_blocks or (private_only and b.is_pub):
            return None
        return b
    policy.closure = closure
    return policy
