"""Inline policies for the path walker (sym.Walker(inline=...)).

A rule that reasons about what one function does on its paths should not depend on whether part of that function was
moved into a helper.  `helpers(prog, keep)` inlines every crate-local function or method except the anchors the rule
itself names (`keep`: path suffixes), closures, public API functions (stable anchors) and large bodies."""


# Functions the rule modules look up by name (their anchors).  They are never walked into, whatever their visibility:
# narrowing `pub fn` to `pub(crate) fn` must not make an anchor disappear into its caller.
ANCHORS = ("Operator::split_head_tail", "get_floats", "get_integers", "get_numbers", "get_two_constants", "unify_sfunction",
           "recreate_variables", "recreate_vars_goals", "recreate_vars_terms", "check_arithmetic_infix", "check_infix", "add_rules",
           "count_rules", "get_rule", "next_id", "set_var_id", "get_var_id", "clear_id", "get_left_and_right", "make_goal",
           "parse_operator_goal", "parse_subgoal", "make_term", "parse_term", "make_query", "parse_query", "format_solution",
           "get_constant", "get_ground_term", "cancel_timer", "query_stopped", "start_query_timer", "stop_query", "start_query",
           "Unifiable::unify", "replace_variables", "make_linked_list", "next_solution", "next_solution_and", "next_solution_or",
           "next_solution_bip", "next_solution_print", "make_solution_node", "make_base_node", "set_no_backtracking",
           "format_for_print_pred", "solve", "solve_all", "evaluate_add", "evaluate_subtract", "evaluate_multiply",
           "evaluate_divide", "evaluate_join")


def helpers(prog, keep=(), max_blocks=120, private_only=True):
    idx = {}
    for b in prog.lib_bodies():
        if b.kind in ("Fn", "AssocFn"):
            idx.setdefault(b.path, b)

    closures = {b.path: b for b in prog.lib_bodies() if b.kind == "Closure"}

    def closure(path):
        """Body of a closure, or of a crate function used as a function value (`map(f)`); the walker applies it to
        the payload when it models an Option / Result combinator."""
        return closures.get(path) or policy(path)

    def policy(name):
        b = idx.get(name)
        if b is None:
            return None
        for k in keep:
            if name.endswith(k):
                return None
        last = name.split("::")[-1]
        for k in ANCHORS:
            if name == k or name.endswith("::" + k) or last == k:
                return None
        if len(b.blocks) > max_blocks or (private_only and b.is_pub):
            return None
        return b
    policy.closure = closure
    return policy
