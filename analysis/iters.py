"""Element provenance through iterators.

Rules that say "the element at the same position of two collections" must not depend on whether the loop is written
with an index (`for i in 1..n { a[i] .. b[i] }`), with `iter().enumerate()`, with `zip`, or with `skip(1)`.

The k-th `next()` of an iterator expression yields an item whose leaves are
    ("elem", coll, shift)   the element of `coll` at position k + shift
    ("idx", shift)          the number k + shift
layout(it) computes that item shape for the adapters below; anything else (rev, filter, step_by, chain, ..) is unknown
(None), so rules fail closed on it.

resolve(t) maps a value term that is (a projection of) `next(it).Some.0` to ("elem", coll, step, shift) or
("idx", step, shift), where `step` identifies the next() call (its call term).  position(t) gives the position key of an
element term written either as `coll[i]` / `coll.get(i)` payload or as an iterator item."""
from sym import strip, lookup


def _const(t):
    t = strip(t)
    return t[3] if isinstance(t, tuple) and t[0] == "const" and isinstance(t[3], int) else None


def _shift(l, n):
    if l is None:
        return None
    if l[0] == "elem":
        return ("elem", l[1], l[2] + n)
    if l[0] == "idx":
        return ("idx", l[1] + n)
    if l[0] == "pair":
        a, b = _shift(l[1], n), _shift(l[2], n)
        return None if a is None or b is None else ("pair", a, b)
    return None


def layout(it):
    it = strip(it)
    if not isinstance(it, tuple) or not it:
        return None
    if it[0] == "agg" and it[1].endswith("ops::Range"):
        st = _const(dict(it[3]).get("start"))
        return ("idx", st) if st is not None else None
    if it[0] in ("param", "field", "index", "static"):
        # `for x in coll` / `coll.into_iter()`: IntoIterator::into_iter is transparent to the walker, so the iterator
        # term is the collection itself (or a parameter that already is an iterator: its items, in order)
        return ("elem", it, 0)
    if it[0] != "call":
        return None
    nm, args = it[1], it[2]
    last = nm.split("::")[-1]
    if last in ("iter", "iter_mut", "into_iter") and len(args) == 1:
        inner = strip(args[0])
        # into_iter of an iterator is the iterator itself; of a collection, its elements
        sub = layout(inner) if inner[0] in ("call", "agg") else None
        if sub is not None and last == "into_iter":
            return sub
        return ("elem", inner, 0)
    if last in ("chars", "bytes") and len(args) == 1:
        return ("elem", strip(args[0]), 0)
    if last == "enumerate" and len(args) == 1:
        sub = layout(args[0])
        return None if sub is None else ("pair", ("idx", 0), sub)
    if last == "zip" and len(args) == 2:
        a = layout(args[0])
        b0 = strip(args[1])
        b = layout(b0)
        if b is None and b0[0] not in ("call", "agg"):
            b = ("elem", b0, 0)          # zip(other_collection): IntoIterator over its elements
        elif b is None and b0[0] == "call" and b0[1].split("::")[-1] not in ADAPTERS:
            b = ("elem", b0, 0)
        return None if a is None or b is None else ("pair", a, b)
    if last == "skip" and len(args) == 2:
        n = _const(args[1])
        return None if n is None else _shift(layout(args[0]), n)
    if last in ("copied", "cloned", "by_ref", "peekable", "fuse") and len(args) == 1:
        return layout(args[0])
    if last == "take" and len(args) == 2:
        return layout(args[0])          # a prefix: positions unchanged
    return None


ADAPTERS = {"rev", "filter", "filter_map", "map", "step_by", "chain", "skip_while", "take_while", "flat_map", "flatten",
            "enumerate", "zip", "skip", "take", "copied", "cloned", "iter", "iter_mut", "into_iter", "chars", "bytes"}


def resolve(t):
    t = strip(t)
    proj = []
    while isinstance(t, tuple) and t and t[0] == "field":
        proj.append(t[2])
        t = strip(t[1])
    if not (isinstance(t, tuple) and t and t[0] == "call" and t[1].endswith("::next") and len(t[2]) == 1):
        return None
    proj.reverse()
    if not proj or proj[0] != "Some.0":
        return None
    l = layout(t[2][0])
    for f in proj[1:]:
        if l is None or l[0] != "pair" or f not in ("0", "1"):
            return None
        l = l[1 + int(f)]
    if l is None or l[0] == "pair":
        return None
    if l[0] == "elem":
        return ("elem", l[1], t, l[2])
    return ("idx", t, l[1])


def position(t):
    """(collection, position key) of an element term, or None.  Position keys of the same iteration step compare
    equal whether the element was reached as an iterator item or by indexing with that step's index."""
    r = resolve(t)
    if r is not None and r[0] == "elem":
        return r[1], ("step", r[2], r[3])
    lk = lookup(t)
    if lk is not None:
        coll, key = lk
        rk = resolve(key)
        if rk is not None and rk[0] == "idx":
            return coll, ("step", rk[1], rk[2])
        return coll, ("term", key)
    return None


def leaves(l):
    """Leaves of a layout."""
    if l is None:
        return []
    if l[0] == "pair":
        return leaves(l[1]) + leaves(l[2])
    return [l]


def _is_const(t, n):
    t = strip(t)
    return isinstance(t, tuple) and t[0] == "const" and t[3] == n


def first_of(t):
    """The collection whose first element t is: `v.remove(0)`, `v[0]`, `v.first()` / `v.get(0)` payload,
    `v.split_first()` payload .0, the first item of a forward iteration.  None otherwise."""
    t = strip(t)
    if not isinstance(t, tuple) or not t:
        return None
    if t[0] == "call" and t[1].endswith("::remove") and len(t[2]) == 2 and _is_const(t[2][1], 0):
        return strip(t[2][0])
    if t[0] == "field" and t[2] == "0":
        x = strip(t[1])
        if x[0] == "field" and x[2] == "Some.0" and strip(x[1])[0] == "call" and strip(x[1])[1].endswith("::split_first"):
            return strip(strip(x[1])[2][0])
    if t[0] == "field" and t[2] == "Some.0":
        x = strip(t[1])
        if x[0] == "call" and x[1].endswith("::first") and len(x[2]) == 1:
            return strip(x[2][0])
    lk = lookup(t)
    if lk is not None and _is_const(lk[1], 0):
        return lk[0]
    return None


def rest_of(t, path=None):
    """The collection of which t holds everything but the first element: `v.split_first()` payload .1 (also
    `.to_vec()` of it), `v[1..]` (also `.to_vec()`), or a vector from which `remove(0)` was called on this path."""
    t = strip(t)
    if not isinstance(t, tuple) or not t:
        return None
    if t[0] == "call" and (t[1].endswith("::to_vec") or t[1].endswith("::to_owned") or t[1].endswith("::collect")) and t[2]:
        inner = rest_of(t[2][0], path)
        if inner is not None:
            return inner
    if t[0] == "field" and t[2] == "1":
        x = strip(t[1])
        if x[0] == "field" and x[2] == "Some.0" and strip(x[1])[0] == "call" and strip(x[1])[1].endswith("::split_first"):
            return strip(strip(x[1])[2][0])
    if t[0] == "call" and t[1].endswith("::index") and len(t[2]) == 2:
        r = strip(t[2][1])
        if r[0] == "agg" and r[1].endswith("ops::RangeFrom") and _is_const(dict(r[3]).get("start"), 1):
            return strip(t[2][0])
    if t[0] == "call" and t[1].endswith("::skip") and len(t[2]) == 2 and _is_const(t[2][1], 1):
        l = layout(t[2][0])
        if l is not None and l[0] == "elem" and l[2] == 0:
            return l[1]
    if path is not None:
        # a vector (a copy of the operands) from which the first element was removed, exactly once, on this path
        rm = [e for e in path.calls() if e["callee"].endswith("::remove") and len(e["args"]) == 2 and strip(e["args"][0]) == t]
        others = [e for e in path.calls() if strip(e["args"][0]) == t and len(e["args"]) >= 1 and
                  any(e["callee"].endswith(x) for x in ("::push", "::insert", "::pop", "::truncate", "::clear", "::swap_remove",
                                                        "::retain", "::drain", "::reverse", "::sort", "::swap", "::extend"))] if True else []
        if len(rm) == 1 and _is_const(rm[0]["args"][1], 0) and not others:
            return t
    return None
