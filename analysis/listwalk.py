"""Walks over the nodes of a Suiron list made on behalf of a built-in (count, include / exclude, join, append, print_list).

A list `[a, b | $T]` ends in a node whose `tail_var` flag is set and whose term is the variable.  A walk that is to see
"the elements of the list, continuing through a bound tail variable" has to (1) read that flag — nothing else tells
`[a | $T]` from `[a, $T]` — (2) look the variable up in the substitution set, and (3) go on into the list it is bound
to.  `follows_tail` decides that shape on the MIR paths of a walking function; `walkers` is the inventory.
"""
from cfg import BodyCfg
from sym import Walker, strip, mentions, TooManyPaths
import inline

LIST = "SLinkedList"
SS = "SubstitutionSet"


def _reads_field(j, name):
    if isinstance(j, dict):
        if j.get("field") == name and LIST in str(j.get("of")):
            return True
        return any(_reads_field(v, name) for v in j.values())
    if isinstance(j, list):
        return any(_reads_field(v, name) for v in j)
    return False


def ss_params(b):
    out = []
    for i in range(1, b.mir["arg_count"] + 1):
        ty = b.locals[i]["s"]
        if "Vec<std::option::Option<std::rc::Rc<unifiable::Unifiable>>>" in ty.replace(" ", "") or SS in ty:
            out.append(("param", i, b.locals[i].get("name") or ""))
    return out


def _is_ss(a, ssp):
    """Is the argument the substitution-set parameter itself (through `&`, `*`, `Rc::clone`)?"""
    a = strip(a)
    while isinstance(a, tuple) and a and a[0] == "call" and len(a[2]) == 1 and a[1].split("::")[-1] in ("clone", "deref", "as_ref", "borrow"):
        a = strip(a[2][0])
    return a in ssp


_CHAIN = {}


def chain_following(prog, path, _stack=()):
    """Does the crate function follow a chain of bindings (`$T -> $U -> [b, c]`)?  True when its body, or a crate function
    it hands a substitution set to, has a loop or calls itself; a function that reads one binding and returns has neither."""
    key = (id(prog), path)
    if key in _CHAIN:
        return _CHAIN[key]
    if path in _stack:
        return True          # recursion: follows as far as the chain goes
    idx = {b.path: b for b in prog.lib_bodies()}
    b = idx.get(path)
    if b is None:
        return False
    ok = bool(BodyCfg(b).loops())
    if not ok:
        for i, t in b.calls():
            nm = t["callee"].get("resolved") or t["callee"].get("path") or ""
            hb = idx.get(nm)
            if hb is not None and (nm == path or (ss_params(hb) and chain_following(prog, nm, _stack + (path,)))):
                ok = True
                break
    _CHAIN[key] = ok
    return ok


def walkers(prog):
    """Free functions that take a substitution set and have a loop which moves along `next` links of list nodes and
    looks at their terms (directly or through a private helper called inside the loop)."""
    idx = {b.path: b for b in prog.lib_bodies()}
    out = []
    for b in prog.lib_bodies():
        if b.kind != "Fn" or not ss_params(b):
            continue
        for h, bl in BodyCfg(b).loops().items():
            blocks = [b.blocks[i] for i in bl if not b.blocks[i]["cleanup"]]
            helpers = []
            for blk in blocks:
                t = blk["term"]
                if t["k"] == "call":
                    hb = idx.get(t["callee"].get("resolved") or t["callee"].get("path") or "")
                    if hb is not None and not hb.is_pub and hb.kind in ("Fn", "AssocFn") and len(hb.blocks) <= 40:
                        helpers += [x for x in hb.blocks if not x["cleanup"]]
            allb = blocks + helpers
            if any(_reads_field(x, "next") for x in allb) and any(_reads_field(x, "term") for x in allb):
                out.append((b, h, bl))
                break
    return out


def follows_tail(prog, b, max_visits=3):
    """(True, n) when some path of b takes a node's `tail_var` flag as set, then hands that node's term and the
    substitution set to a crate function, and later looks at the `term` / `next` of what came back (goes on into the
    list the tail variable is bound to).  (False, reason) otherwise."""
    ssp = ss_params(b)
    crate = {x.path for x in prog.lib_bodies()}
    try:
        ps = Walker(b, max_visits=max_visits, max_paths=150000, inline=inline.helpers(prog, keep=("get_ground_term", "get_list"))).paths()
    except TooManyPaths:
        return False, "too many paths", 0
    n = 0
    flag_read = False
    single = None
    for p in ps:
        node = None
        look = None
        for e in p.events:
            if e["k"] == "branch":
                c = strip(e["cond"])
                hit = []
                mentions(c, lambda t: hit.append(t) or False if (t[0] == "field" and t[2] == LIST + ".tail_var") else False)
                if c[0] == "field" and c[2] == LIST + ".tail_var":
                    hit.append(c)
                if hit:
                    flag_read = True
                    # the flag taken as set: `tv` true, or `tv && ..` true, or `!tv` false
                    truth = e["value"] is True if not (c[0] == "unop" and c[1] == "Not") else e["value"] is False
                    if truth and node is None:
                        node = strip(hit[0][1])
                        continue
                if look is not None and mentions(c, lambda t: t[0] == "field" and t[2] in (LIST + ".term", LIST + ".next")
                                                and mentions(t[1], lambda y: y == look)):
                    n += 1
                    look = "done"
            if e["k"] == "call" and node is not None and look is None and e["callee"] in crate and not e.get("inlined"):
                args = [strip(a) for a in e["args"]]
                has_ss = any(_is_ss(a, ssp) for a in args)
                has_term = any(mentions(a, lambda y: y[0] == "field" and y[2] == LIST + ".term" and strip(y[1]) == node) or
                               (a[0] == "field" and a[2] == LIST + ".term" and strip(a[1]) == node) for a in args)
                if has_ss and has_term:
                    if not chain_following(prog, e["callee"]):
                        single = e["callee"]          # reads one binding: a variable bound to a variable bound to a list is not followed
                        continue
                    look = strip(e["result"]) if e.get("result") is not None else None
            elif look not in (None, "done") and e["k"] == "call":
                if any(mentions(a, lambda t: t[0] == "field" and t[2] in (LIST + ".term", LIST + ".next") and
                                mentions(t[1], lambda y: y == look)) for a in e["args"]):
                    n += 1
                    look = "done"
        if look not in (None, "done"):
            # the walk's cursor was set from the looked-up list and the path ended (loop bound): the values live in env
            for v in p.env.values():
                if isinstance(v, tuple) and mentions(v, lambda t: t[0] == "field" and t[2] in (LIST + ".term", LIST + ".next") and
                                                     mentions(t[1], lambda y: y == look)):
                    n += 1
                    break
    if single:
        return False, ("the tail variable is looked up with %s, which reads one binding and does not follow a chain of variables: a "
                       "tail variable bound to a variable bound to a list is not continued" % single.split("::")[-1]), len(ps)
    skipped = _flag_without_lookup(ps, ssp, crate)
    if n and skipped:
        return False, ("on some path a node whose tail-variable flag is set (line %d) is taken for an element without its variable being "
                       "looked up: the walk does not continue through every bound tail variable" % skipped), len(ps)
    if n:
        return True, "", len(ps)
    return False, ("the walk reads the tail-variable flag but never goes on into the list the variable is bound to" if flag_read else
                   "the walk never reads the tail-variable flag of a node: `[a | $T]` is walked like `[a, $T]`"), len(ps)


def _flag_without_lookup(ps, ssp, crate):
    """Line of a branch that takes a node's tail flag as set after which, on that path, the walk consumes or leaves the
    node without either looking its term up with the substitution set or testing the term itself (`$_`, not a variable)."""
    for p in ps:
        pending = None
        for e in p.events:
            if e["k"] == "branch":
                c = strip(e["cond"])
                hit = []
                mentions(c, lambda t: hit.append(t) or False if (t[0] == "field" and t[2] == LIST + ".tail_var") else False)
                if c[0] == "field" and c[2] == LIST + ".tail_var":
                    hit.append(c)
                if hit:
                    if pending is not None:
                        return pending[1]
                    truth = e["value"] is True if not (c[0] == "unop" and c[1] == "Not") else e["value"] is False
                    if truth:
                        pending = (strip(hit[0][1]), e["line"])
                    continue
                if pending is not None:
                    node = pending[0]
                    def is_term(t):
                        t = strip(t)
                        return isinstance(t, tuple) and t and t[0] == "field" and t[2] == LIST + ".term" and strip(t[1]) == node
                    v = e["value"]
                    cc = c
                    if cc[0] == "unop" and cc[1] == "Not" and isinstance(v, bool):
                        cc, v = strip(cc[2]), not v
                    if cc[0] == "call" and (cc[1].endswith("::eq") or cc[1].endswith("::ne")) and len(cc[2]) == 2 and isinstance(v, bool):
                        ops = [strip(a) for a in cc[2]]
                        anon = any(a[0] == "agg" and a[2] == "Anonymous" for a in ops)
                        if anon and any(is_term(a) for a in ops) and (v is True) == cc[1].endswith("::eq"):
                            pending = None       # the tail is the anonymous variable: nothing to look up
                    elif cc[0] == "variant" and is_term(cc[1]):
                        vals = v if isinstance(v, tuple) else (v,)
                        if "LogicVar" not in vals:
                            pending = None       # not a variable at all
            elif e["k"] == "call" and pending is not None and not e.get("inlined"):
                node = pending[0]
                args = [strip(a) for a in e["args"]]
                has_term = any(mentions(a, lambda y: y[0] == "field" and y[2] == LIST + ".term" and strip(y[1]) == node) or
                               (a[0] == "field" and a[2] == LIST + ".term" and strip(a[1]) == node) for a in args if isinstance(a, tuple) and a)
                if has_term and e["callee"] in crate and any(_is_ss(a, ssp) for a in args if isinstance(a, tuple) and a):
                    pending = None
                elif has_term and (e["callee"].endswith("::push") or e["callee"].endswith("::eq") or e["callee"].endswith("::ne")):
                    if e["callee"].endswith("::push"):
                        return pending[1]
    return 0


SS_VEC = "Vec<std::option::Option<std::rc::Rc<unifiable::Unifiable>>>"


def raw_binding_reads(prog, fns):
    """[(function, line)] where one of the given functions reads a binding by indexing the substitution set itself
    (`ss[id]`, `ss.get(id)`) instead of asking a resolver of the substitution-set module, which follows chains."""
    out = []
    for b in fns:
        for i, t in b.calls():
            nm = t["callee"].get("path") or ""
            pa = (t["callee"].get("path_args") or "").replace(" ", "")
            if SS_VEC in pa and (nm.endswith("::index") or nm.endswith("::get") or nm.endswith("::get_unchecked")):
                out.append((b, t["line"]))
            elif (nm.endswith("::index") or nm.endswith("::get")) and t["args"] and \
                    SS_VEC in ((t["args"][0].get("place") or {}).get("ty", "") or "").replace(" ", ""):
                out.append((b, t["line"]))
    return out
