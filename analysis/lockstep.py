"""Index and length moving in lockstep: `v.remove(i)` inside a loop whose index goes down by one per iteration while
each iteration removes exactly one element, and `v.remove(j)` after such a loop.

    let last = v.len() - 1;                       let last = v.len() - 1;
    let mut i = last;                             for i in (1..=last).rev() {
    while i > 0 { x = v.remove(i); ..; i -= 1 }       x = v.remove(i); ..
    v.remove(0)                                   }
                                                  v.remove(0)

Per completed iteration the length changes by dL and the index by dI on *every* path around the loop; when dL == dI the
difference len(v) - i is the same in every iteration, so `i < len(v)` at the site follows from a linear condition at the
loop's entry, which the bounds prover (bounds.py) must discharge from the guards in force there.  After the loop the
length is at least  L0 - (number of iterations)  (for a range) or  (exit value of the counter) + (len - i)  (for a
counter), which gives `len(v) >= j + 1` the same way.  Anything else that could change the vector's length inside the
loop (another &mut use of it), an inner loop around the operations, or paths with different deltas make the rule give
up (the site is then left to the other mechanisms)."""
from bounds import Lin

LEN_DELTA = {"remove": -1, "swap_remove": -1, "push": 1, "insert": 1}
LEN_AT_MOST = {"pop": -1}        # removes one element or none: usable for lower bounds only


def _last(t):
    return ((t["callee"].get("resolved") or t["callee"].get("path") or "").split("<")[0]).split("::")[-1]


def _name(t):
    return t["callee"].get("resolved") or t["callee"].get("path") or ""


def innermost_loop(bnd, bb):
    best = None
    for h, blocks in bnd.cfg.loops().items():
        if bb in blocks and (best is None or len(blocks) < len(best[1])):
            best = (h, blocks)
    return best


def len_ops(fn, blocks, vec_key, lower_bound=False):
    """{bb: delta} for length-changing calls on the vector inside `blocks`; None if it is mutably used otherwise.
    With lower_bound, `pop` counts as -1 (its worst case), which is sound for "at least so many elements remain"."""
    b, bnd = fn.b, fn.bnd
    out = {}
    table = dict(LEN_DELTA)
    if lower_bound:
        table.update(LEN_AT_MOST)
    for x in blocks:
        t = b.blocks[x]["term"]
        if t["k"] == "call" and t["args"] and t["args"][0]["k"] in ("copy", "move"):
            key, _ = bnd.root_key(t["args"][0]["place"])
            if key == vec_key and "Vec" in _name(t):
                last = _name(t).split("::")[-1]
                if last in table:
                    out[x] = table[last]
                elif "&mut" in (t["args"][0]["place"].get("ty") or ""):
                    return None
    # any other mutable borrow of the vector's root local inside the loop
    roots = {i for i, l in enumerate(b.locals) if (l.get("name") or "_%d" % i) == vec_key.split(".")[0]}
    for r in roots:
        for mb in bnd.mut_borrowed.get(r, []):
            if mb in blocks and mb not in out:
                # the borrow must feed a length op in the same block or the next one
                nxt = [s for s in bnd.cfg.succ[mb]]
                if not (mb in out or any(n in out for n in nxt)):
                    return None
    return out


def iteration_paths(bnd, head, blocks, stop=None):
    """Paths (lists of blocks) from `head` once around the loop back to `head` (stop=None), or from `head` to `stop`.
    None if an inner cycle is met."""
    out = []
    bad = [False]

    def dfs(x, path):
        if len(out) > 4000:
            bad[0] = True
            return
        for s in bnd.cfg.succ[x]:
            if s not in blocks:
                continue
            if stop is None and s == head:
                out.append(path)
                continue
            if s == head:
                continue
            if s in path:
                bad[0] = True
                return
            if stop is not None and s == stop:
                out.append(path + [s])
                continue
            dfs(s, path + [s])
    if stop == head:
        return [[head]]
    dfs(head, [head])
    return None if bad[0] else out


def range_chain(bnd, local, depth=0):
    """Follow an iterator local back to the range it was made from: (reversed?, inclusive?, start op, end op, creation bb, k)."""
    rev = False
    l = local
    for _ in range(10):
        ds = [d for d in bnd.defs.get(l, []) if d[2].get("k") != "partial"]
        if len(ds) != 1:
            return None
        bb, k, rv = ds[0]
        if rv["k"] == "use" and rv["op"]["k"] in ("copy", "move") and not rv["op"]["place"]["p"]:
            l = rv["op"]["place"]["l"]
            continue
        if rv["k"] in ("ref", "rawptr") and all(e == "deref" for e in rv["place"]["p"]):
            l = rv["place"]["l"]
            continue
        if rv["k"] == "aggregate" and rv.get("adt", "").endswith("ops::Range") and len(rv["ops"]) == 2:
            return rev, False, rv["ops"][0], rv["ops"][1], bb, k
        if rv["k"] == "call":
            t = rv["t"]
            last = _name(t).split("::")[-1]
            if last in ("into_iter", "by_ref") and t["args"] and t["args"][0]["k"] in ("copy", "move") and not t["args"][0]["place"]["p"]:
                l = t["args"][0]["place"]["l"]
                continue
            if last == "rev" and t["args"] and t["args"][0]["k"] in ("copy", "move") and not t["args"][0]["place"]["p"]:
                rev = not rev
                l = t["args"][0]["place"]["l"]
                continue
            if last == "new" and "RangeInclusive" in _name(t) and len(t["args"]) == 2:
                return rev, True, t["args"][0], t["args"][1], bb, "term"
        return None
    return None


def index_kind(fn, blocks, idx_operand):
    """("counter", local) | ("range", next_bb, chain) | None"""
    from rules.C18 import inc_form, root_local
    bnd, b = fn.bnd, fn.b
    if idx_operand["k"] not in ("copy", "move") or idx_operand["place"]["p"]:
        return None
    l = root_local(bnd, idx_operand["place"]["l"])
    sd = bnd.single_def(l)
    if sd is not None and sd[2]["k"] == "use" and sd[2]["op"]["k"] in ("copy", "move"):
        pl = sd[2]["op"]["place"]
        pr = pl["p"]
        if len(pr) == 2 and isinstance(pr[0], dict) and pr[0].get("downcast") == "Some" and isinstance(pr[1], dict) and pr[1].get("field") == "0":
            opt = pl["l"]
            for x in blocks:
                t = b.blocks[x]["term"]
                if t["k"] == "call" and not t["dest"]["p"] and t["dest"]["l"] == opt and _name(t).split("::")[-1] in ("next", "next_back") \
                        and t["args"] and t["args"][0]["k"] in ("copy", "move") and not t["args"][0]["place"]["p"]:
                    ch = range_chain(bnd, t["args"][0]["place"]["l"])
                    if ch is not None:
                        if _name(t).split("::")[-1] == "next_back":
                            ch = (not ch[0],) + ch[1:]
                        return ("range", x, ch)
        return None
    if sd is None and l not in bnd.mut_borrowed and b.locals[l].get("k") in ("uint", "int"):
        steps = {}
        for bb, k, rv in bnd.defs.get(l, []):
            if bb not in blocks:
                continue
            f = inc_form(bnd, rv)
            if f is None or f[0] != l:
                return None
            steps.setdefault(bb, 0)
            steps[bb] += f[1]
        return ("counter", l, steps)
    return None


def _deltas(path, ops):
    return sum(ops.get(x, 0) for x in path)


def in_loop(fn, site_bb, vec_key, idx_operand):
    """`v.remove(idx)` at the terminator of site_bb.  Returns explanation or None."""
    bnd, b = fn.bnd, fn.b
    lp = innermost_loop(bnd, site_bb)
    if lp is None:
        return None
    head, blocks = lp
    ops = len_ops(fn, blocks, vec_key)
    if ops is None:
        return None
    kind = index_kind(fn, blocks, idx_operand)
    if kind is None:
        return None
    its = iteration_paths(bnd, head, blocks)
    if not its:
        return None
    pre = [p for p in bnd.cfg.pred[head] if p not in blocks and p in bnd.cfg.live]
    if len(pre) != 1:
        return None
    pre = pre[0]
    ln = Lin({("len", vec_key): 1})
    if kind[0] == "counter":
        _, c, steps = kind
        dI = {_deltas(p, steps) for p in its}
        dL = {_deltas(p, ops) for p in its}
        if len(dI) != 1 or dI != dL:
            return None
        to_site = iteration_paths(bnd, head, blocks, stop=site_bb)
        if not to_site:
            return None
        # before the site: effects of the blocks on the way, excluding the site's own terminator (the removal itself)
        part = {(_deltas(p[:-1], ops), _deltas(p, steps)) for p in to_site}
        if len(part) != 1:
            return None
        pl, pi = list(part)[0]
        # at the site: len - c = (L0 - c0) + pl - pi ;  need c < len  <=>  c0 - L0 + pi - pl + 1 <= 0 at loop entry
        goal = Lin({("L", c): 1}).add(ln, -1).add(Lin({}, pi - pl + 1))
        if bnd.prove(goal, pre, "term"):
            return ("lockstep: the index `%s` and the length of `%s` change by %d per iteration on every path around the loop, "
                    "so len - index is the same in every iteration; at loop entry index + %d <= len follows from the guards in force there"
                    % (fn.lname(c), vec_key, list(dI)[0], pi - pl + 1))
        return None
    _, nb, (rev, incl, st, en, cb, ck) = kind
    if any(p.count(nb) != 1 for p in its):
        return None
    dL = {_deltas(p, ops) for p in its}
    dI = -1 if rev else 1
    if dL != {dI}:
        return None
    to_site = iteration_paths(bnd, head, blocks, stop=site_bb)
    if not to_site or any(nb not in p for p in to_site):
        return None
    part = {_deltas(p[:-1], ops) for p in to_site}
    if len(part) != 1:
        return None
    pl = list(part)[0]
    s_, e_ = bnd.lin_op(st), bnd.lin_op(en)
    first = (e_ if incl else e_.add(Lin({}, -1))) if rev else s_
    # item_k = first + k*dI ; len_k(at site) = L0 + k*dL + pl  with dL == dI  =>  need first - L0 - pl + 1 <= 0 at creation,
    # and the vector untouched between the creation of the range and the loop
    goal = first.add(ln, -1).add(Lin({}, 1 - pl))
    if bnd.prove(goal, cb, ck) and bnd.def_fact_valid((cb, ck, -1, ln), pre, "term"):
        return ("lockstep: the range item and the length of `%s` both change by %d per iteration on every path around the loop; "
                "its first value + %d <= len where the range is created, and the vector is untouched until the loop starts" % (vec_key, dI, 1 - pl))
    return None


def after_loop(fn, site_bb, vec_key, j):
    """`v.remove(j)` (j a constant) at site_bb, after a lockstep loop over v.  Returns explanation or None."""
    bnd, b = fn.bnd, fn.b
    cands = []
    for head, blocks in bnd.cfg.loops().items():
        if site_bb in blocks or not bnd.cfg.dom(head, site_bb):
            continue
        ops = len_ops(fn, blocks, vec_key, lower_bound=True)
        if ops:
            cands.append((head, blocks, ops))
    if len(cands) != 1:
        return None
    head, blocks, ops = cands[0]
    # nothing else changes the length between the loop and the site, nor before the loop since the facts were taken
    roots = {i for i, l in enumerate(b.locals) if (l.get("name") or "_%d" % i) == vec_key.split(".")[0]}
    for r in roots:
        for mb in bnd.mut_borrowed.get(r, []):
            if mb not in blocks and mb != site_bb and bnd.cfg.dom(head, mb) and mb in bnd.cfg.reach([head]) and site_bb in bnd.cfg.reach([mb]):
                return None
    pre = [p for p in bnd.cfg.pred[head] if p not in blocks and p in bnd.cfg.live]
    if len(pre) != 1:
        return None
    pre = pre[0]
    its = iteration_paths(bnd, head, blocks)
    if not its:
        return None
    dL = {_deltas(p, ops) for p in its}
    if min(dL) < -1:
        return None
    ln = Lin({("len", vec_key): 1})
    # which index drives the loop: the operand of the removal inside it, or (for `pop`) the range the loop iterates
    rem = [x for x in ops if _name(b.blocks[x]["term"]).split("::")[-1] in ("remove", "swap_remove")]
    kind = None
    if len(rem) == 1 and dL == {-1}:
        kind = index_kind(fn, blocks, b.blocks[rem[0]]["term"]["args"][1])
    if kind is None:
        # a loop driven by a range whose items are not used as the index (`for _ in a..=b { v.pop() }`)
        for x in sorted(blocks):
            t = b.blocks[x]["term"]
            if t["k"] == "call" and _name(t).split("::")[-1] in ("next", "next_back") and t["args"] and \
                    t["args"][0]["k"] in ("copy", "move") and not t["args"][0]["place"]["p"]:
                ch = range_chain(bnd, t["args"][0]["place"]["l"])
                if ch is not None:
                    kind = ("range", x, ch)
    if kind is None:
        return None
    if kind[0] == "counter" and dL != {-1}:
        return None
    if kind[0] == "counter":
        _, c, steps = kind
        if {_deltas(p, steps) for p in its} != {-1} or b.locals[c].get("k") != "uint":
            return None
        # len - c is invariant = D at loop entry (exactly); the counter is unsigned, so after the loop len >= D
        for D in (0, 1, 2, 3):
            eq = ln.add(Lin({("L", c): 1}), -1).add(Lin({}, -D))
            neg = Lin({k: -v for k, v in eq.t.items()}, -eq.c)
            if bnd.prove(eq, pre, "term") and bnd.prove(neg, pre, "term"):
                if D >= j + 1:
                    return ("lockstep: len(%s) - %s = %d at loop entry and on every iteration (both go down by one); the counter is "
                            "unsigned, so at least %d element(s) remain after the loop" % (vec_key, fn.lname(c), D, D))
                return None
        return None
    _, nb, (rev, incl, st, en, cb, ck) = kind
    if any(p.count(nb) != 1 for p in its):
        return None
    s_, e_ = bnd.lin_op(st), bnd.lin_op(en)
    n_it = e_.add(s_, -1).add(Lin({}, 1 if incl else 0))          # iterations when the range is not empty
    g1 = Lin({}, j + 1).add(ln, -1)                               # empty range: L0 >= j + 1
    g2 = Lin({}, j + 1).add(ln, -1).add(n_it)                     # else: L0 - N >= j + 1
    if bnd.prove(g1, cb, ck) and bnd.prove(g2, cb, ck) and bnd.def_fact_valid((cb, ck, -1, ln), pre, "term"):
        return ("lockstep: every iteration of the loop over the range removes exactly one element, so at least "
                "len - (number of items of the range) >= %d element(s) remain; both bounds follow from the guards in force where "
                "the range is created" % (j + 1))
    return None
