"""Obligations, evidence files, known findings and the VIOLATION protocol."""
import json
import os
import time

VERIF = os.path.dirname(os.path.dirname(os.path.abspath(__file__)))


class Ctx:
    """Collects the obligations (rule instances) of one property check."""

    def __init__(self, prop, prog, tier, seed=0):
        self.prop = prop
        self.prog = prog
        self.tier = tier
        self.seed = seed
        self.obs = []
        self.info = []
        self.stats = {"functions_analysed": set(), "call_sites": 0, "paths_walked": 0}
        self.assumptions = []
        self.floors = {}
        self.t0 = time.time()
        self.extra = {}

    # -- recording ----------------------------------------------------
    def ob(self, rule, instance, ok, where="", why="", detail=None):
        """One obligation. ok: True (discharged), False (violated), or the
        string "reviewed"."""
        status = "discharged" if ok is True else ("violated" if ok is False else str(ok))
        key = "%s/%s/%s" % (self.prop, rule, instance)
        o = {"key": key, "rule": rule, "instance": instance, "status": status, "where": where, "why": why}
        if detail is not None:
            o["detail"] = detail
        self.obs.append(o)
        return ok is True

    def missing(self, rule, what):
        """An anchor the rule needs could not be located: fail closed."""
        return self.ob(rule, "ANCHOR-MISSING:" + what, False, "",
                       "anchor not found; the rule cannot be evaluated, so nothing is concluded (fail closed)")

    def floor(self, rule, found, minimum, what):
        self.floors[rule] = {"found": found, "floor": minimum, "what": what}
        if found < minimum:
            self.ob(rule, "FLOOR:" + what, False, "",
                    "only %d instance(s) of '%s' found, at least %d were confirmed by hand on the reference tree; "
                    "a rule matching fewer sites would pass vacuously (fail closed)" % (found, what, minimum))
            return False
        return True

    def note(self, text):
        self.info.append(text)

    def fn(self, body):
        if body is not None:
            self.stats["functions_analysed"].add(body.path)

    def where(self, body, line=None):
        if body is None:
            return ""
        return "%s:%s (%s)" % (body.file, line if line else body.line, body.path)


def load_known():
    p = os.path.join(VERIF, "known_findings.json")
    if not os.path.exists(p):
        return {}
    with open(p) as f:
        j = json.load(f)
    out = {}
    for e in j.get("findings", []):
        out[e["key"]] = e
    return out


def finish(ctx, level_explanation, rule_text, trusted=None, write=True):
    """Write evidence, print protocol lines, return exit code."""
    known = load_known()
    violations = []
    known_hit = []
    for o in ctx.obs:
        if o["status"] == "violated":
            if o["key"] in known:
                o["status"] = "known"
                known_hit.append((o, known[o["key"]]))
            else:
                violations.append(o)
    n_ob = len(ctx.obs)
    n_dis = sum(1 for o in ctx.obs if o["status"] in ("discharged", "reviewed"))
    ev_dir = os.path.join(VERIF, "evidence")
    os.makedirs(os.path.join(ev_dir, "replay"), exist_ok=True)
    lines = []
    for o, k in known_hit:
        lines.append("KNOWN-FINDING: property=%s %s %s" % (ctx.prop, o["key"], k.get("what", o["why"])))
    for o in violations:
        safe = o["key"].replace("/", "_").replace(":", "_").replace(" ", "_").replace("<", "").replace(">", "")[:150]
        rp = os.path.join(ev_dir, "replay", "%s.json" % safe)
        if write:
            with open(rp, "w") as f:
                json.dump({"property": ctx.prop, "obligation": o,
                           "how_to_replay": "./check %s --explain %s" % (ctx.prop, rp)}, f, indent=1, default=str)
        lines.append("VIOLATION property=%s replay=%s" % (ctx.prop, rp))
        lines.append("  rule=%s instance=%s at %s: %s" % (o["rule"], o["instance"], o["where"], o["why"]))
    samples = []
    for o in ctx.obs[:400]:
        samples.append({k: o[k] for k in ("key", "status", "where", "why")})
    distinct = len({o["key"] for o in ctx.obs})
    cov = {
        "explanation": level_explanation,
        "rule": rule_text,
        "obligations": n_ob,
        "discharged": n_dis,
        "known_findings": len(known_hit),
        "evaluations": max(n_ob, 1),
        "distinct_nontrivial": distinct,
        "functions_analysed": sorted(ctx.stats["functions_analysed"]),
        "n_functions_analysed": len(ctx.stats["functions_analysed"]),
        "call_sites": ctx.stats["call_sites"],
        "paths_walked": ctx.stats["paths_walked"],
        "floors": ctx.floors,
        "info": ctx.info,
        "samples": samples,
        "trusted_base": trusted or [],
        "checker_cmd": "./check %s --tier %s" % (ctx.prop, ctx.tier),
        "exhaustive": True,
    }
    cov.update(ctx.extra)
    ev = {
        "property_id": ctx.prop,
        "tier": ctx.tier,
        "seed": ctx.seed,
        "level": "other",
        "coverage": cov,
        "assumptions": list(ctx.assumptions) + list(trusted or []) + [
            "decides the structural rules named in coverage.rule (necessary conditions), not the behaviour for every input",
            "facts come from rustc's own type-checked HIR/MIR of /repo's working tree at check time (dev profile, cfg(test) off)"],
        "wall_s": round(time.time() - ctx.t0, 3),
        "violations": len(violations),
    }
    if write:
        with open(os.path.join(ev_dir, "%s.json" % ctx.prop), "w") as f:
            json.dump(ev, f, indent=1, default=str)
    for l in lines:
        print(l)
    print("%s: %d obligations, %d discharged, %d known finding(s), %d violation(s) [%s tier, %.1fs]" % (
        ctx.prop, n_ob, n_dis, len(known_hit), len(violations), ctx.tier, time.time() - ctx.t0))
    return 1 if violations else 0
