"""C01 — answers equal depth-first SLD resolution (structural clauses)."""
from solver import (outcome_of, emptiness_test, Solver, goal_kinds, real_calls, is_none, some_payload, str_cell, const_false, node_field_writes,
                    NODE_TY)
from sym import Walker, strip, show, mentions, lookup

EXPLANATION = ("Structural necessary conditions of C01 decided over every CFG path of the solver: substitution sets are "
               "persistent (Freeze type tree, no Rc::get_mut/make_mut/raw access on shared sets, every mutable vector "
               "borrow is of a vector owned by the function); every alternative starts from the right set (argument "
               "provenance at each call site of unify / make_solution_node); clauses are tried in index order (one "
               "increment by 1 between fetches, get_rule indexes the vector stored under the goal's key, add_rules only "
               "pushes, count_rules returns that vector's length); conjunction and disjunction go left to right and "
               "resume the deepest stored alternative first; the value returned as an answer comes from the child / tail / "
               "head search or the head unification and from nowhere else; the clause count is count_rules(kb, key of the "
               "node's own goal). Decides these shapes, not equality with a reference interpreter on all programs.")
RULES = ("R9 = C06/R4 (running set threaded through unify), R10 = C10/R3 (id discipline); R1 persistent sets; R2 provenance of the set/parent/goal arguments at the clause loop, And tail, Or tail and "
         "make_solution_node arms; R3 clause order; R4 left-to-right; R5 re-entry order; R6 answer provenance; R7 clause count")
WITNESSES = {"W1SharedSetIsImmutable": "a substitution set shared through Rc cannot be pushed to (E0596)",
             "W1bBoundTermIsImmutable": "a bound term behind Rc<Unifiable> cannot be overwritten (E0594)",
             "W2SolverHoldsSharedKb": "SolutionNode.kb is a shared reference: the solver cannot insert into the knowledge base (E0596)"}
TRUSTED = ["rustc nightly HIR/MIR construction", "std Vec/HashMap/Rc semantics",
           "bounded unrolling: loop bodies walked up to 3 times per path"]

SS_VEC = "std::vec::Vec<std::option::Option<std::rc::Rc<unifiable::Unifiable>>>"
RC_ESCAPES = ("::get_mut", "::make_mut", "::get_mut_unchecked", "::as_ptr", "::into_raw", "::from_raw", "::try_unwrap",
              "::into_inner", "::unwrap_or_clone")


def part_of(t, part, rule_term):
    """t is the head / body of the fetched clause: `rule.get_head()` / `get_body()` (a copy) or the field itself."""
    t = strip(t)
    if t[0] == "call" and t[1].endswith("get_" + part) and t[2] and strip(t[2][0]) == strip(rule_term):
        return True
    return t == ("field", strip(rule_term), part)


def _box_deref(b, l):
    """Is local l (a raw pointer) only ever the pointer inside a `Box` the function owns or borrows — the way MIR
    spells `*boxed` / `**ref_to_box`?  Writing through it is a safe store into the box's own allocation."""
    defs = [s_["rv"] for blk in b.blocks for s_ in blk["stmts"] if s_["k"] == "assign" and s_["place"]["l"] == l and not s_["place"]["p"]]
    def boxptr(rv):
        if rv["k"] != "cast" or rv.get("ck") != "Transmute" or rv["op"]["k"] not in ("copy", "move"):
            return False
        pr = rv["op"]["place"]["p"]
        return len(pr) >= 2 and isinstance(pr[-1], dict) and pr[-1].get("field") == "pointer" and \
            isinstance(pr[-2], dict) and pr[-2].get("of") == "std::boxed::Box"
    return bool(defs) and all(boxptr(rv) for rv in defs)


def run(ctx):
    prog = ctx.prog
    S = Solver(prog, ctx)
    for nm in ("entry", "make_node", "make_base", "bip_fn", "and_fn", "or_fn"):
        if getattr(S, nm) is None:
            ctx.missing("anchors", nm)
            return
        ctx.fn(getattr(S, nm))
    E, A, O, M, MB = S.entry, S.and_fn, S.or_fn, S.make_node, S.make_base
    sn = S.sn(E)
    solver_fns = {E.path, A.path, O.path, S.bip_fn.path}
    # ---- R1 ---------------------------------------------------------------
    lib = prog.lib
    al = [a for a in lib["aliases"] if a["path"].endswith("SubstitutionSet")]
    ad = prog.adt("unifiable::Unifiable")
    ctx.ob("R1", "freeze", bool(al) and al[0]["freeze"] and ad is not None and ad["freeze"], "",
           "SubstitutionSet and Unifiable contain no interior mutability (Freeze): no write can hide behind a shared reference")
    bad = None
    n_calls = 0
    for b in prog.bodies:
        for bb, t in b.calls():
            c = t["callee"]
            if c.get("indirect"):
                continue
            n_calls += 1
            pa = c.get("path_args") or ""
            if "std::rc::Rc::<" + SS_VEC in pa.replace(" ", "") or ("Rc::<" in pa and SS_VEC in pa and "Rc::<T" not in pa):
                if any(c["path"].endswith(x) for x in RC_ESCAPES):
                    bad = (b, t)
    ctx.stats["call_sites"] += n_calls
    ctx.ob("R1", "no-rc-escape", bad is None, ctx.where(bad[0], bad[1]["line"]) if bad else "",
           "%s gives mutable or raw access to a shared substitution set" % bad[1]["callee"]["path"] if bad else
           "no Rc::get_mut/make_mut/as_ptr/into_raw/from_raw/try_unwrap at T = SubstitutionSet in %d call sites" % n_calls)
    # mutable borrows / params of the set type
    bad = None
    n_mut = 0
    for b in prog.lib_bodies():
        for i in range(1, b.mir["arg_count"] + 1):
            ty = b.locals[i]["s"].replace(" ", "")
            if ty.startswith("&mut") and SS_VEC in ty and "Rc<" + SS_VEC not in ty:
                bad = (b, b.line, "takes a substitution set by mutable reference")
        for i, blk in enumerate(b.blocks):
            if blk["cleanup"]:
                continue
            for s in blk["stmts"]:
                if s["k"] != "assign":
                    continue
                rv = s["rv"]
                if rv["k"] in ("ref", "rawptr") and (rv.get("bk") == "mut" or "Mut" in rv.get("pk", "")):
                    pl = rv["place"]
                    if pl["ty"].replace(" ", "") == SS_VEC:
                        n_mut += 1
                        if any(e == "deref" for e in pl["p"]) or pl["p"]:
                            bad = (b, s["line"], "mutable borrow of a substitution set that is not a local vector of the function")
                # direct stores through a deref'd set
                pl = s["place"]
                if pl["p"] and any(e == "deref" for e in pl["p"]):
                    base_ty = b.locals[pl["l"]]["s"].replace(" ", "")
                    if b.locals[pl["l"]].get("k") == "ptr" and ("unifiable::Unifiable" in base_ty or SS_VEC in base_ty) \
                            and "MaybeUninit<[" not in base_ty and not base_ty.lstrip("*constmu ").startswith("[") \
                            and not _box_deref(b, pl["l"]):
                        # (initialising the fresh array behind a `vec![..]` literal is not a write into shared data)
                        bad = (b, s["line"], "raw-pointer write into a term or substitution set")
    ctx.ob("R1", "writes-only-to-owned-vectors", bad is None and n_mut >= 1, ctx.where(bad[0], bad[1]) if bad else "",
           bad[2] if bad else "%d mutable borrow(s) of a set-typed vector, all of vectors owned by the borrowing function" % n_mut)
    # ---- R2 ---------------------------------------------------------------
    eps = [p for p in S.paths(E, 3) if goal_kinds(p).get("goal") == "ComplexGoal"]
    ctx.stats["paths_walked"] += len(eps)
    ok = {"unify-set": True, "unify-goal": True, "body-set": True, "body-kb": True, "body-goal": True}
    why = {}
    n_u = n_m = 0
    for p in eps:
        cur_rule = None
        cur_unify = None
        for e in p.events:
            if e["k"] != "call":
                continue
            if S.is_fetch(e["callee"]):
                cur_rule = e
            elif e["callee"].endswith("Unifiable::unify"):
                n_u += 1
                cur_unify = e
                h, g, s = e["args"][:3]
                if strip(s) != ("field", sn, "ss"):
                    ok["unify-set"] = False
                    why["unify-set"] = "head unification starts from %s, not the node's own set" % show(s)
                hh = strip(h)
                if not (cur_rule is not None and part_of(hh, "head", cur_rule["result"])):
                    ok["unify-goal"] = False
                    why["unify-goal"] = "the term unified is %s, not the head of the clause just fetched" % show(h)
                gg = strip(g)
                if not (gg[0] == "field" and gg[2] == "ComplexGoal.0"):
                    ok["unify-goal"] = False
                    why["unify-goal"] = "the head is unified with %s, not the node's goal" % show(g)
            elif e["callee"] == M.path:
                n_m += 1
                g, kb, s, par = e["args"][:4]
                if cur_unify is None or strip(s) != ("field", cur_unify["result"], "Some.0"):
                    ok["body-set"] = False
                    why["body-set"] = "the clause body starts from %s, not the result of the head unification" % show(s)
                if strip(kb) != ("field", sn, "kb"):
                    ok["body-kb"] = False
                    why["body-kb"] = "the clause body searches %s, not the node's knowledge base" % show(kb)
                gg = strip(g)
                if not (cur_rule is not None and part_of(gg, "body", cur_rule["result"])):
                    ok["body-goal"] = False
                    why["body-goal"] = "the child node's goal is %s, not the body of the clause just fetched" % show(g)
    ctx.floor("R2", n_u and n_m, 1, "head unifications / body nodes in the clause loop")
    for k in ok:
        ctx.ob("R2", "clause-loop/" + k, ok[k], ctx.where(E), why.get(k, "holds at %d unify / %d body call events" % (n_u, n_m)))
    # And tail
    asn = S.sn(A)
    aps = S.paths(A, 3)
    ctx.stats["paths_walked"] += len(aps)
    okA, whyA, nA = True, "", 0
    head_t = ("field", ("field", asn, "head_sn"), "Some.0")
    for p in aps:
        last_head = None
        for e in p.events:
            if e["k"] != "call":
                continue
            if e["callee"] in solver_fns and strip(e["args"][0]) == head_t:
                last_head = e
            elif e["callee"] == M.path:
                nA += 1
                g, kb, s, par = e["args"][:4]
                if last_head is None or strip(s) != ("field", last_head["result"], "Some.0"):
                    okA, whyA = False, "the rest of the conjunction starts from %s, not the set returned by the last search of the left goal" % show(s)
                if strip(kb) != ("field", asn, "kb") or strip(par) != asn:
                    okA, whyA = False, "tail node gets kb/parent (%s, %s)" % (show(kb), show(par))
                gg = strip(g)
                if not (gg[0] == "agg" and gg[2] == "OperatorGoal" and
                        strip(dict(gg[3])["0"]) == ("field", ("field", asn, "operator_tail"), "Some.0")):
                    okA, whyA = False, "tail node's goal is %s, not the stored remainder of the conjunction" % show(g)
    ctx.ob("R2", "and-tail", okA and nA > 0, ctx.where(A), whyA or "tail node = (operator_tail, kb, Some-payload of the last head search, this node) at %d call events" % nA)
    osn = S.sn(O)
    ops = S.paths(O, 2)
    ctx.stats["paths_walked"] += len(ops)
    okO, whyO, nO = True, "", 0
    for p in ops:
        for e in p.calls():
            if e["callee"] == M.path:
                nO += 1
                g, kb, s, par = e["args"][:4]
                if strip(s) != ("field", osn, "ss"):
                    okO, whyO = False, "the right alternative starts from %s, not the node's own incoming set: bindings of the abandoned alternative would leak" % show(s)
                if strip(kb) != ("field", osn, "kb") or strip(par) != osn:
                    okO, whyO = False, "tail node gets kb/parent (%s, %s)" % (show(kb), show(par))
                gg = strip(g)
                if not (gg[0] == "agg" and gg[2] == "OperatorGoal" and
                        strip(dict(gg[3])["0"]) == ("field", ("field", osn, "operator_tail"), "Some.0")):
                    okO, whyO = False, "tail node's goal is %s, not the stored remainder of the disjunction" % show(g)
    ctx.ob("R2", "or-tail", okO and nO > 0, ctx.where(O), whyO or "tail node = (operator_tail, kb, clone of own ss, this node) at %d call events" % nO)
    # make_solution_node arms
    inc = ("param", 3, M.locals[3].get("name") or "")
    kbp = ("param", 2, M.locals[2].get("name") or "")
    mps = S.paths(M, 2)
    ctx.stats["paths_walked"] += len(mps)
    seen = set()
    for p in mps:
        if p.end != "return":
            continue
        kinds = goal_kinds(p)
        g = kinds.get("goal")
        op = None
        for c, v, bb in p.decisions:
            if c[0] == "variant" and (v in ("And", "Or", "Time", "Not") or (isinstance(v, tuple) and set(v) <= {"And", "Or", "Time", "Not"})):
                op = v if isinstance(v, str) else "|".join(v)
        inst = "%s%s" % (g, "/" + op if op else "")
        if inst in seen:
            continue
        seen.add(inst)
        ssw = [e for e in p.events if e["k"] == "write" and e["field"] == "ss"]
        good = bool(ssw) and strip(ssw[-1]["value"]) == inc
        whyM = "node.ss = incoming set"
        if not good:
            whyM = "node.ss is %s, not the incoming set" % (show(ssw[-1]["value"]) if ssw else "left at the default (empty set)")
        rec = [e for e in p.calls() if e["callee"] == M.path]
        if g == "OperatorGoal":
            if len(rec) != 1 or strip(rec[0]["args"][2]) != inc or strip(rec[0]["args"][1]) != kbp:
                good, whyM = False, "the head node does not start from the incoming set / kb"
            elif op in ("And", "Or"):
                hg = strip(rec[0]["args"][0])
                # head goal = .0 of split_head_tail(op)
                if not mentions(hg, lambda t: t[0] == "call" and t[1].endswith("split_head_tail")):
                    good, whyM = False, "the head node's goal is %s, not the first operand" % show(hg)
        ctx.ob("R2", "make-node(%s)" % inst, good, ctx.where(M), whyM)
    ctx.floor("R2/make-node", len(seen), 4, "arms of make_solution_node")
    # ---- R3 ---------------------------------------------------------------
    ok3, why3, n3 = True, "", 0
    ri = ("field", sn, "rule_index")
    for p in eps:
        cnt = None
        for e in p.events:
            if e["k"] == "call" and S.is_fetch(e["callee"]):
                if cnt is not None and cnt != 1:
                    ok3, why3 = False, "rule_index is incremented %d times between two clause fetches" % cnt
                cnt = 0
                n3 += 1
            elif e["k"] == "write" and e["place"] == ri and cnt is not None:
                v = strip(e["value"])
                if v[0] == "binop" and v[1] == "Add" and v[3][0] == "const" and v[3][3] == 1 and strip(v[2]) == ri:
                    cnt += 1
                else:
                    ok3, why3 = False, "rule_index is assigned %s" % show(v)
        if cnt is not None and cnt != 1:
            ok3, why3 = False, "rule_index is incremented %d times after the last clause fetch of a path" % cnt
    ctx.ob("R3", "one-increment-per-fetch", ok3 and n3 > 0, ctx.where(E), why3 or "exactly one `+= 1` after each of %d fetch events" % n3)
    GR = next((b for b in prog.lib_bodies() if b.path in S.fetchers and b.mir["arg_count"] == 3), None)
    CR = prog.one("knowledge_base::count_rules")
    AR = prog.one("knowledge_base::add_rules")
    if GR is None or CR is None or AR is None:
        ctx.missing("R3", "get_rule / count_rules / add_rules")
    else:
        for b in (GR, CR, AR):
            ctx.fn(b)
        kb1 = ("param", 1, GR.locals[1].get("name") or "")
        ok, why = True, ""
        n = 0
        for p in Walker(GR, max_visits=2, inline=S.inline).paths():
            if p.end != "return":
                continue
            n += 1
            r = strip(p.ret)
            # recreate_variables(clone(kb[name][index]))   (v[i], v.get(i) payload, ... : sym.lookup)
            good = r[0] == "call" and r[1].endswith("recreate_variables")
            if good:
                l1 = lookup(r[2][0])
                good = l1 is not None and l1[1] == ("param", 3, GR.locals[3].get("name") or "")
                if good:
                    l2 = lookup(l1[0])
                    good = l2 is not None and l2[0] == kb1 and l2[1] == ("param", 2, GR.locals[2].get("name") or "")
            if not good:
                ok, why = False, "get_rule returns %s, not the renamed clause at `index` of the vector stored under the key" % show(r)
        ctx.ob("R3", "get_rule-indexes-key-vector", ok and n > 0, ctx.where(GR), why or "returns rules[index] of kb[key], renamed")
        ok, why, n = True, "", 0
        for p in Walker(CR, max_visits=2, inline=S.inline).paths():
            if p.end != "return":
                continue
            n += 1
            r = strip(p.ret)
            if r[0] == "const" and r[3] == 0:
                continue
            good = r[0] == "call" and r[1].endswith("::len")
            if good:
                l1 = lookup(("field", strip(r[2][0]), "Some.0")) if strip(r[2][0])[0] == "call" else lookup(r[2][0])
                good = l1 is not None and l1[0] == ("param", 1, CR.locals[1].get("name") or "")
            if not good:
                ok, why = False, "count_rules returns %s" % show(r)
        ctx.ob("R3", "count_rules-is-len", ok and n >= 2, ctx.where(CR), why or "returns kb[key].len() or 0")
        # add_rules: only push / insert(vec![rule])
        muts = set()
        fam_bodies = [b for b in prog.lib_bodies() if b.path in S.family(AR.path)]
        for bb, t in [c for fb in fam_bodies for c in fb.calls()]:
            nm = t["callee"].get("resolved") or t["callee"].get("path") or ""
            if any(nm.endswith(x) for x in ("::push", "::insert", "::get_mut", "::remove", "::swap_remove", "::clear",
                                            "::truncate", "::sort", "::reverse", "::retain", "::pop", "::drain",
                                            "::entry", "::extend", "::append", "::swap")):
                muts.add(nm.split("::")[-1])
        ctx.ob("R3", "add_rules-appends", muts <= {"push", "insert", "get_mut", "entry"} and "push" in muts, ctx.where(AR),
               "add_rules mutates the clause vectors with %s (append-only: push / insert of a new vector)" % sorted(muts))
    # ---- R4 ---------------------------------------------------------------
    for nm, F, fps in (("and", A, aps), ("or", O, ops)):
        fsn = S.sn(F)
        head = ("field", ("field", fsn, "head_sn"), "Some.0")
        tailn = ("field", ("field", fsn, "tail_sn"), "Some.0")
        ok, why, n = True, "", 0
        for p in fps:
            searched_head = None
            for e in p.events:
                if e["k"] != "call":
                    continue
                if e["callee"] in solver_fns and strip(e["args"][0]) == head:
                    searched_head = e
                if e["callee"] == M.path:
                    n += 1
                    if searched_head is None:
                        ok, why = False, "the right-hand node is created before the left goal was searched"
                    elif nm == "or":
                        res = searched_head["result"]
                        none = outcome_of(p, res) == "None"
                        if not none:
                            ok, why = False, "the right alternative is started although the left one did not fail"
                    elif nm == "and":
                        res = searched_head["result"]
                        some = outcome_of(p, res) == "Some"
                        if not some:
                            ok, why = False, "the rest of the conjunction is started although the left goal has no answer"
        ctx.ob("R4", "left-to-right(%s)" % nm, ok and n > 0, ctx.where(F), why or "left goal searched first (%d events)" % n)
    # every answer of the left goal reaches the rest of the conjunction: after the head's search returned Some, the
    # next thing the conjunction does is return it (nothing remains) or build and search the tail node — it never
    # goes back to the head without having tried the tail for that answer
    head = ("field", ("field", asn, "head_sn"), "Some.0")
    ok, why, n = True, "", 0
    for p in aps:
        ev = [e for e in p.events if e["k"] == "call" and (e["callee"] in solver_fns or e["callee"] == M.path)]
        for i, e in enumerate(ev):
            if e["callee"] in solver_fns and strip(e["args"][0]) == head and outcome_of(p, e["result"]) == "Some":
                n += 1
                nxt = ev[i + 1] if i + 1 < len(ev) else None
                returned = p.end == "return" and some_payload(p.ret) is not None and nxt is None
                if nxt is not None and nxt["callee"] != M.path:
                    ok, why = False, ("after the left goal answered (line %d) the conjunction goes on to %s without building and "
                                      "searching the remaining goals for that answer" % (e["line"], nxt["callee"].split("::")[-1]))
                if nxt is None and not returned:
                    ok, why = False, "an answer of the left goal (line %d) is neither returned nor passed to the remaining goals" % e["line"]
    ctx.ob("R4", "every-head-answer-reaches-tail", ok and n > 0, ctx.where(A), why or
           "each of %d head answers is followed by the tail's construction and search, or returned when nothing remains" % n)
    ST = prog.one("Operator::split_head_tail")
    if ST is None:
        ctx.missing("R4", "split_head_tail")
    else:
        ctx.fn(ST)
        ok, why, n = True, "", 0
        import iters as _it
        for p in Walker(ST, max_visits=2, inline=S.inline).paths():
            if p.end != "return":
                continue
            n += 1
            r = p.ret
            if r[0] != "tuple":
                ok, why = False, "returns %s" % show(r)
                continue
            h = strip(r[1][0])
            t = strip(r[1][1])
            # head = first operand; tail = same operator kind over all the other operands, in order
            kind = [v for c, v, bb in p.decisions if c[0] == "variant" and v in ("And", "Or")]
            own = ("field", ("param", 1, ST.locals[1].get("name") or ""), kind[0] + ".0") if kind else None
            fo = _it.first_of(h)
            good = fo is not None and own is not None and t[0] == "agg" and t[2] == kind[0] and t[3]
            if good:
                ro = _it.rest_of(dict(t[3]).get("0"), p)
                good = ro is not None and strip(ro) == strip(fo) and strip(fo) == own
            if not good:
                ok, why = False, "split_head_tail returns (%s, %s)" % (show(h)[:80], show(t)[:120])
        ctx.ob("R4", "split-removes-first", ok and n == 2, ctx.where(ST), why or "head = operands.remove(0); tail keeps the operator kind")
    # ---- R5 ---------------------------------------------------------------
    def first_search(p, fsn_):
        for e in p.calls():
            if e["callee"] in solver_fns:
                return e
        return None
    # And: tail_sn Some -> tail searched first
    head = ("field", ("field", asn, "head_sn"), "Some.0")
    tailn = ("field", ("field", asn, "tail_sn"), "Some.0")
    ok, why, n = True, "", 0
    for p in aps:
        tv = [v for c, v, bb in p.decisions if c == ("variant", ("field", asn, "tail_sn"))]
        fs = first_search(p, asn)
        if tv and tv[0] == "Some":
            n += 1
            if fs is None or strip(fs["args"][0]) != tailn:
                ok, why = False, "with a stored tail node the conjunction does not resume it first"
            else:
                res = fs["result"]
                nxt = [e for e in p.calls() if e["callee"] in solver_fns and e is not fs]
                if nxt and outcome_of(p, res) != "None":
                    ok, why = False, "the head is re-asked although the stored tail still had an answer"
        elif fs is not None and strip(fs["args"][0]) != head:
            ok, why = False, "without a stored tail the conjunction starts with %s" % show(fs["args"][0])
    ctx.ob("R5", "resume(and)", ok and n > 0, ctx.where(A), why or "stored tail resumed first; head re-asked only after it failed (%d paths)" % n)
    head = ("field", ("field", osn, "head_sn"), "Some.0")
    tailn = ("field", ("field", osn, "tail_sn"), "Some.0")
    ok, why, n = True, "", 0
    for p in ops:
        tv = [v for c, v, bb in p.decisions if c == ("variant", ("field", osn, "tail_sn"))]
        ss_ = [e for e in p.calls() if e["callee"] in solver_fns]
        if tv and tv[0] == "Some":
            n += 1
            if len(ss_) != 1 or strip(ss_[0]["args"][0]) != tailn:
                ok, why = False, "with a stored tail node the disjunction does not ask exactly that node"
        elif ss_ and strip(ss_[0]["args"][0]) != head:
            ok, why = False, "without a stored tail the disjunction starts with %s" % show(ss_[0]["args"][0])
    ctx.ob("R5", "resume(or)", ok and n > 0, ctx.where(O), why or "stored tail is the only node asked (%d paths)" % n)
    child = ("field", ("field", sn, "child"), "Some.0")
    ok, why, n = True, "", 0
    for p in eps:
        cv = [v for c, v, bb in p.decisions if c == ("variant", ("field", sn, "child"))]
        rc = [e for e in real_calls(p) if e["callee"] in solver_fns or S.is_fetch(e["callee"])]
        if cv and cv[0] == "Some":
            n += 1
            if not rc or rc[0]["callee"] != E.path or strip(rc[0]["args"][0]) != child:
                ok, why = False, "with a stored child the node does not resume it before fetching clauses"
    ctx.ob("R5", "resume(complex)", ok and n > 0, ctx.where(E), why or "stored child resumed before the clause loop (%d paths)" % n)
    # ---- R6 ---------------------------------------------------------------
    def answer_sources(p):
        """Terms acceptable as an answer on path p: results of sub-searches and of the head unification."""
        src = set()
        for e in p.calls():
            if e["callee"] in solver_fns or e["callee"].endswith("Unifiable::unify"):
                src.add(e["result"])
        return src
    for nm, F, fps in (("complex", E, eps), ("and", A, aps), ("or", O, ops)):
        ok, why, n = True, "", 0
        for p in fps:
            if p.end != "return" or is_none(p.ret):
                continue
            n += 1
            r = strip(p.ret)
            src = answer_sources(p)
            good = r in src
            pl = some_payload(r)
            if not good and pl is not None:
                q = strip(pl)
                good = q[0] == "field" and q[2] == "Some.0" and q[1] in src
            if not good:
                ok, why = False, "an answer %s is returned that is not the result of a sub-search or of the head unification" % show(r)
                continue
            # which one: complex -> child result, or the unification result when the body is Nil
            if nm == "complex" and pl is not None and strip(pl)[1][0] == "call" and strip(pl)[1][1] in solver_fns:
                pass        # Some(set) re-wrapped around the payload of the child's search (`let ss = next_solution(child)?; Some(ss)`)
            elif nm == "complex" and pl is not None:
                q = strip(pl)[1]
                if not q[1].endswith("Unifiable::unify"):
                    ok, why = False, "a rebuilt answer %s" % show(r)
                nil = any(e["k"] == "branch" and ((e["value"] is True and e["cond"][0] == "call" and e["cond"][1].endswith("::eq")
                                                   and any(isinstance(a, tuple) and a[0] == "agg" and a[2] == "Nil" for a in e["cond"][2]))
                                                  or (e["cond"][0] == "variant" and e["value"] == "Nil")) for e in p.events)
                if not nil:
                    ok, why = False, "the head-unification result is returned although the clause has a body"
            if nm == "and" and pl is not None:
                # head's result returned only when the remaining tail is absent / empty
                emp = any(c == ("variant", ("field", asn, "operator_tail")) and v == "None" for c, v, bb in p.decisions) or \
                    any(emptiness_test(e) is not None for e in p.events)
                last = [e for e in p.calls() if e["callee"] in solver_fns][-1]
                if strip(last["args"][0]) != ("field", ("field", asn, "head_sn"), "Some.0") or not emp:
                    if strip(pl)[1] != last["result"] or strip(last["args"][0]) == ("field", ("field", asn, "head_sn"), "Some.0"):
                        ok, why = False, "the conjunction returns the left goal's set although goals remain"
        ctx.ob("R6", "answer-source(%s)" % nm, ok and n > 0, ctx.where(F), why or "every Some return is a sub-search / head-unification result (%d paths)" % n)
    # ---- R7 ---------------------------------------------------------------
    for nm, F in (("make_base_node", MB), ("make_solution_node", M)):
        ok, why, n = True, "", 0
        kbp_ = ("param", 2, F.locals[2].get("name") or "")
        for p in S.paths(F, 2):
            if p.end != "return" or goal_kinds(p).get("goal") != "ComplexGoal":
                continue
            n += 1
            w = [e for e in p.events if e["k"] == "write" and e["field"] == "number_facts_rules"]
            if not w:
                ok, why = False, "number_facts_rules is not set for a ComplexGoal node"
                continue
            v = strip(w[-1]["value"])
            good = v[0] == "call" and v[1].endswith("count_rules") and strip(v[2][0]) == kbp_
            if good:
                k = strip(v[2][1])
                good = k[0] == "call" and k[1].endswith("::key") and mentions(k[2][0], lambda t: t[0] == "param" and t[1] == 1)
            if not good:
                ok, why = False, "number_facts_rules = %s, not count_rules(kb, key of the node's goal)" % show(v)
        ctx.ob("R7", "clause-count(%s)" % nm, ok and n > 0, ctx.where(F), why or "count_rules(kb, goal.key())")

    # ---- R8: solve/solve_all answer text: `$Var = value` for the query's variables in argument order -------------
    FS = prog.one("solutions::format_solution")
    if FS is None:
        ctx.missing("R8", "format_solution")
        return
    ctx.fn(FS)
    qp = ("param", 1, FS.locals[1].get("name") or "")
    rp = ("param", 2, FS.locals[2].get("name") or "")
    ok, why, n = True, "", 0
    import iters
    shifts = set()
    for p in Walker(FS, max_visits=3, max_paths=100000, inline=S.inline).paths():
        if p.end != "return":
            continue
        cur_q = None
        for e in p.calls():
            # an element of the query's / the result's argument vector, reached by index or as an iterator item
            if e["callee"].endswith("::next") and len(e["args"]) == 1:
                cands = [("field", e["result"], "Some.0")] + [("field", ("field", e["result"], "Some.0"), f) for f in ("0", "1")]
            elif (e["callee"].endswith("::index") or e["callee"].endswith("::get")) and len(e["args"]) == 2:
                cands = [e["result"] if e["callee"].endswith("::index") else ("field", e["result"], "Some.0")]
            else:
                continue
            for c in cands:
                pos = iters.position(c)
                if pos is None:
                    continue
                base, key = pos
                from_q = mentions(base, lambda t: t == qp)
                from_r = mentions(base, lambda t: t == rp)
                if from_q and not from_r:
                    cur_q = key
                elif from_r and not from_q:
                    n += 1
                    if cur_q is None or key != cur_q:
                        ok, why = False, "a value is taken from the result at position %s while the variable was found at position %s" % (
                            show(key)[:50], show(cur_q)[:50] if cur_q else "?")
                    if key[0] == "step":
                        shifts.add(key[2])
                    else:
                        shifts.add(None)
    # positions 1.. in ascending order: every position key is "k-th step + 1" of a forward iteration (a range starting
    # at 1, or an iterator with skip(1)); reversed / filtered iterations have no position key and fail above
    start_ok = shifts == {1}
    ctx.ob("R8", "answer-text-positions", ok and n > 0 and start_ok, ctx.where(FS), why or (
        "each variable of the query is printed with the result term at the same argument position, positions 1.. in ascending order"
        if start_ok else "the argument positions are not walked from 1 upwards (first positions %s)" % sorted(shifts, key=str)))

    # ---- R9 / R10: the clauses of other properties that C01's answers depend on ------------------------------------
    # (unification threads the running set through element-wise terms — C06/R4; ids handed to renamed clauses are
    #  fresh with respect to live variables — C10/R3)
    import importlib
    for modname, rules, tag in (("rules.C06", ("R4",), "R9"), ("rules.C10", ("R3",), "R10")):
        mod = importlib.import_module(modname)
        before = len(ctx.obs)
        mod.run(ctx)
        keep = []
        for o in ctx.obs[before:]:
            if o["rule"] in rules:
                o["instance"] = "%s.%s.%s" % (modname.split(".")[-1], o["rule"], o["instance"])
                o["rule"] = tag
                o["key"] = "C01/%s/%s" % (tag, o["instance"])
                keep.append(o)
        del ctx.obs[before:]
        ctx.obs.extend(keep)
