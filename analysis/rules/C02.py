"""C02 — cut commits to its clause and ends the call."""
from solver import Solver, goal_kinds, real_calls, is_none, some_payload, str_cell, const_true
from sym import Walker, strip, show, mentions

EXPLANATION = ("Structural necessary conditions of C02 decided over the CFG paths of the solver (next_solution, "
               "next_solution_and/or, next_solution_bip, set_no_backtracking, make_solution_node): the entry guard on the "
               "node's cut flag precedes everything; the `!` built-in sets the flag on its node and succeeds with the "
               "unchanged set; the setter marks every ancestor and every ancestor's head node up to the node without "
               "parent; nodes of called predicates have no parent (the cut is bounded by the call) while operator and "
               "built-in nodes are linked to the calling node; and wherever a node tries an alternative after a child "
               "search failed (next clause, Or tail, And re-ask) the node's flag is read first or the alternative is a "
               "marked head node. Decides these shapes on all paths, not the answers of every program.")
RULES = ("R1 entry guard; R2 `!` cell = setter(this node) + KEEP; R3 setter marks self, each ancestor, each ancestor's "
         "head_sn, follows parent_node, exits only at None; R4 parent_node = None for ComplexGoal nodes and base nodes, "
         "Some(parent) for Operator/BuiltIn nodes, clause bodies get the calling node as parent; R5 flag read between a "
         "failed child search and the next alternative (clause loop, Or tail), And re-ask goes through head_sn")
TRUSTED = ["rustc nightly MIR construction", "bounded unrolling: every loop body is walked up to 3 times per path"]


def run(ctx):
    prog = ctx.prog
    S = Solver(prog, ctx)
    for nm in ("entry", "and_fn", "or_fn", "bip_fn", "setter", "make_node", "make_base"):
        if getattr(S, nm) is None:
            ctx.missing("anchors", nm)
            return
        ctx.fn(getattr(S, nm))
    E = S.entry
    sn = S.sn(E)
    # ---- R1 -------------------------------------------------------------
    ps = S.paths(E, 3)
    ctx.stats["paths_walked"] += len(ps)
    ok, why = True, "the flag read precedes every other call; a set flag returns None at once"
    for p in ps:
        first_branch = next((e for e in p.events if e["k"] == "branch"), None)
        if first_branch is None or not S.is_flag_read(E, first_branch["cond"]):
            ok, why = False, "first decision of the solver entry is not a read of the node's cut flag"
            break
        idx = p.events.index(first_branch)
        before = [e for e in real_calls(p) if p.events.index(e) < idx and e["callee"] not in S.flag_readers and S.effectful(e)]
        if before:
            ok, why = False, "call to %s before the cut-flag guard" % before[0]["callee"]
            break
        if first_branch["value"] is True:
            after = [e for e in real_calls(p) if p.events.index(e) > idx and S.effectful(e)]
            if after or p.end != "return" or not is_none(p.ret):
                ok, why = False, "with the flag set the entry does not return None immediately"
                break
    ctx.ob("R1", "entry-guard", ok, ctx.where(E), why)
    # ---- R2 -------------------------------------------------------------
    B = S.bip_fn
    bsn = S.sn(B)
    bps = S.paths(B, 2)
    ctx.stats["paths_walked"] += len(bps)
    cut = [p for p in bps if str_cell(p) == "!"]
    if not cut:
        ctx.missing("R2", "the `!` cell of the built-in dispatch")
    else:
        ok, why = True, "`!` calls the flag setter on its own node and returns Some(clone of own ss)"
        for p in cut:
            sets = [e for e in p.calls() if e["callee"] == S.setter.path and strip(e["args"][0]) == bsn]
            pl = some_payload(p.ret) if p.end == "return" else None
            if not sets:
                ok, why = False, "the `!` cell does not call the flag setter on its own node"
            elif pl is None or strip(pl) != ("field", bsn, "ss"):
                ok, why = False, "the `!` cell returns %s, not Some(clone of own ss)" % show(p.ret)
        ctx.ob("R2", "cut-cell", ok, ctx.where(B), why)
    # ---- R3 -------------------------------------------------------------
    T = S.setter
    me = ("param", 1, T.locals[1].get("name") or "")
    tps = S.paths(T, 3)
    ctx.stats["paths_walked"] += len(tps)
    ok, why, depth = True, "", 0
    for p in tps:
        if p.end != "return":
            ok, why = False, "setter path ends in %s" % (p.end,)
            break
        writes = {}
        order = []
        for e in p.events:
            if e["k"] == "write":
                writes[e["place"]] = e["value"]
                order.append(e["place"])
        if not const_true(writes.get(("field", me, "no_backtracking"))):
            ok, why = False, "the setter does not set the flag on its own node"
            break
        dec = {c[1]: v for c, v, bb in p.decisions if c[0] == "variant"}
        cur = ("field", me, "parent_node")
        k = 0
        while True:
            v = dec.get(cur)
            if v is None:
                ok, why = False, "the walk over ancestors does not test %s" % show(cur)
                break
            if v == "None":
                break
            anc = ("field", cur, "Some.0")
            if not const_true(writes.get(("field", anc, "no_backtracking"))):
                ok, why = False, "ancestor %s is not marked" % show(anc)
                break
            h = ("field", anc, "head_sn")
            hv = dec.get(h)
            if hv is None:
                ok, why = False, "the ancestor's head node is not examined (%s)" % show(h)
                break
            if hv == "Some":
                hw = writes.get(("field", ("field", h, "Some.0"), "no_backtracking"))
                # the write may be skipped only on the path where the head node was found to *be* this node
                guarded = False
                for e in p.events:
                    if e["k"] == "branch" and e["cond"][0] != "variant" and \
                            mentions(e["cond"], lambda x: x == ("field", h, "Some.0")) and mentions(e["cond"], lambda x: x == me):
                        c, neg = e["cond"], False
                        while c[0] == "unop" and c[1] == "Not":
                            c, neg = c[2], not neg
                        equal_means = not (c[0] == "binop" and c[1] == "Ne")
                        val = (e["value"] is True) != neg
                        if val == equal_means:
                            guarded = True      # pointers equal: the node is already marked as `self`
                if not const_true(hw) and not guarded:
                    ok, why = False, "the head node of ancestor %s is not marked" % show(anc)
                    break
            cur = ("field", anc, "parent_node")
            k += 1
        depth = max(depth, k)
        if not ok:
            break
    if ok and depth < 2:
        ok, why = False, "the ancestor loop was not recognised (no path marks two ancestors)"
    ctx.ob("R3", "propagation", ok, ctx.where(T), why or
           "self, every ancestor and every ancestor's head node are marked; the walk follows parent_node and ends at None "
           "(%d paths, up to %d ancestors)" % (len(tps), depth))
    # ---- R4 -------------------------------------------------------------
    M = S.make_node
    parent = ("param", 4, M.locals[4].get("name") or "")
    mps = S.paths(M, 2)
    ctx.stats["paths_walked"] += len(mps)
    seen = set()
    for p in mps:
        if p.end != "return":
            continue
        kinds = goal_kinds(p)
        g = kinds.get("goal")
        pw = [e for e in p.events if e["k"] == "write" and e["field"] == "parent_node"]
        vals = [e["value"] for e in pw]
        if g == "ComplexGoal":
            ok = all(is_none(v) for v in vals)
            ctx.ob("R4", "complex-node-has-no-parent", ok, ctx.where(M),
                   "a node for a called predicate gets parent %s: the cut would escape the call" % show(vals[-1]) if not ok
                   else "parent_node stays None: the walk of R3 stops at the call's node")
            seen.add(g)
        elif g in ("OperatorGoal", "BuiltInGoal"):
            ok = bool(vals) and strip(some_payload(vals[-1]) or ()) == parent
            inst = "linked(%s%s)" % (g, "/" + kinds["op"] if "op" in kinds else "")
            ctx.ob("R4", inst, ok, ctx.where(M),
                   "operator/built-in nodes must be linked to the calling node (parent_node = Some(parent)); found %s"
                   % [show(v) for v in vals])
            seen.add(g)
    ctx.floor("R4", len(seen), 3, "goal kinds constructed by make_solution_node")
    MB = S.make_base
    ok = True
    for p in S.paths(MB, 2):
        for e in p.events:
            if e["k"] == "write" and e["field"] == "parent_node" and not is_none(e["value"]):
                ok = False
    ctx.ob("R4", "base-node-has-no-parent", ok, ctx.where(MB), "the query's root node has no parent")
    # clause bodies are attached to the calling node
    cps = [p for p in ps if goal_kinds(p).get("goal") == "ComplexGoal"]
    n_sites = 0
    ok = True
    for p in cps:
        for e in p.calls():
            if e["callee"] == M.path:
                n_sites += 1
                if strip(e["args"][3]) != sn:
                    ok = False
    ctx.ob("R4", "body-parent-is-caller", ok and n_sites > 0, ctx.where(E),
           "make_solution_node for a clause body receives the calling node as parent (%d call events)" % n_sites)
    # ---- R5 -------------------------------------------------------------
    # (i) clause loop: between a failed child search and the next get_rule
    def flag_guard_between(body, p, i0, i1):
        for e in p.events[i0:i1]:
            if e["k"] == "branch" and S.is_flag_read(body, e["cond"]) and e["value"] is False:
                return True
        return False

    def flag_true_returns_none(body, paths):
        # every path on which a (non-entry) flag read is True returns None without further solver calls
        for p in paths:
            seen_first = False
            for i, e in enumerate(p.events):
                if e["k"] == "branch" and S.is_flag_read(body, e["cond"]):
                    if body is E and not seen_first:
                        seen_first = True
                        continue
                    if e["value"] is True:
                        rest = [x for x in real_calls(p) if p.events.index(x) > i]
                        if rest or p.end != "return" or not is_none(p.ret):
                            return False
        return True

    solver_fns = {E.path, S.and_fn.path, S.or_fn.path, S.bip_fn.path}
    viol = None
    n_seg = 0
    for p in cps:
        ev = p.events
        for i, e in enumerate(ev):
            if e["k"] == "call" and e["callee"] in solver_fns:
                # next alternative: the next get_rule call after this child search
                for j in range(i + 1, len(ev)):
                    x = ev[j]
                    if x["k"] == "call" and x["callee"] in solver_fns:
                        break
                    if x["k"] == "call" and S.is_fetch(x["callee"]):
                        n_seg += 1
                        if not flag_guard_between(E, p, i, j):
                            viol = (e, x)
                        break
    ok = viol is None and n_seg > 0 and flag_true_returns_none(E, cps)
    ctx.ob("R5", "clause-loop", ok, ctx.where(E, viol[1]["line"] if viol else None),
           "after the child search at line %d failed, the next clause is fetched (line %d) without reading the node's cut "
           "flag: `t($X) :- $X = 1, !, fail.  t($X) :- $X = 2.` answers t(2)" % (viol[0]["line"], viol[1]["line"]) if viol
           else "every failed child search is followed by a cut-flag read before the next clause (%d segments)" % n_seg)
    # (ii) Or: between the head's failed search and the creation of the tail node
    O = S.or_fn
    osn = S.sn(O)
    ops = S.paths(O, 2)
    ctx.stats["paths_walked"] += len(ops)
    viol = None
    n_seg = 0
    for p in ops:
        ev = p.events
        for i, e in enumerate(ev):
            if e["k"] == "call" and e["callee"] in solver_fns:
                for j in range(i + 1, len(ev)):
                    x = ev[j]
                    if x["k"] == "call" and x["callee"] == M.path:
                        n_seg += 1
                        if not flag_guard_between(O, p, i, j):
                            viol = (e, x)
                        break
    ok = viol is None and n_seg > 0 and flag_true_returns_none(O, ops)
    ctx.ob("R5", "or-tail", ok, ctx.where(O, viol[1]["line"] if viol else None),
           "after the left alternative failed (line %d) the right one is started (line %d) without reading the node's cut "
           "flag: `t($X) :- ($X = 1, !, fail; $X = 3).` answers t(3)" % (viol[0]["line"], viol[1]["line"]) if viol
           else "the cut flag is read between the failed left alternative and the start of the right one (%d segments)" % n_seg)
    # (iii) And: a re-ask after a failed tail is a search on head_sn (marked by R3, guarded by R1) or flag-guarded
    A = S.and_fn
    asn = S.sn(A)
    aps = S.paths(A, 3)
    ctx.stats["paths_walked"] += len(aps)
    viol = None
    n_seg = 0
    for p in aps:
        prev = None
        for i, e in enumerate(p.events):
            if e["k"] == "call" and e["callee"] in solver_fns:
                if prev is not None:
                    n_seg += 1
                    tgt = strip(e["args"][0])
                    is_head = tgt == ("field", ("field", asn, "head_sn"), "Some.0")
                    fresh = tgt[0] == "call" and tgt[1] == M.path   # a node created after the failed search
                    if not (is_head or flag_guard_between(A, p, prev, i)) and not fresh:
                        viol = e
                    if fresh and not flag_guard_between(A, p, prev, i):
                        # a new tail node is created only after the *head* succeeded, which R1+R3 rule out after a cut
                        pe = p.events[prev]
                        ptgt = strip(pe["args"][0])
                        if ptgt != ("field", ("field", asn, "head_sn"), "Some.0"):
                            viol = e
                prev = i
    ctx.ob("R5", "and-reask", viol is None and n_seg > 0, ctx.where(A, viol["line"] if viol else None),
           "after a failed search the conjunction continues with %s, which is neither its marked head node nor guarded by "
           "the cut flag" % show(viol["args"][0]) if viol else
           "after a failed tail the conjunction re-asks only its head node (marked by the cut, guarded at entry) "
           "(%d segments)" % n_seg)
