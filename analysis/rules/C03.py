"""C03 — not(G) succeeds once, without bindings, iff G has no answer."""
from solver import outcome_of, Solver, goal_kinds, real_calls, is_none, some_payload, str_cell, const_false
from sym import Walker, strip, show, mentions

EXPLANATION = ("For `not` the solver arm is the semantics (given next_solution's contract for G), so the outcome table of "
               "the Not arm is checked on every CFG path: G answered -> fail; G has no answer -> succeed with a clone of the "
               "node's own incoming set (never G's result); at most once (one-shot guard before the sub-search, cleared on "
               "success); the Not node and G's node are both built from the incoming set; the parser maps `not(..)` to the "
               "Not operator. Decides the arm, not G's own search.")
RULES = ("R1 Not arm: head result Some -> return None, None -> return Some(S); R2 S = clone of this node's field ss; "
         "R3 `!more_solutions -> None` precedes the head search and more_solutions=false precedes the successful return; "
         "R4 make_solution_node Not arm: node.ss = incoming set, head node = make_solution_node(goals[0], kb, same set, "
         "this node), stored in head_sn; R5 parse_subgoal routes functor `not`/`time` to the operator parser, which builds "
         "Operator::Not / Operator::Time around the parsed sub-goal")
TRUSTED = ["rustc nightly MIR construction"]


def run(ctx):
    prog = ctx.prog
    S = Solver(prog, ctx)
    for nm in ("entry", "make_node"):
        if getattr(S, nm) is None:
            ctx.missing("anchors", nm)
            return
        ctx.fn(getattr(S, nm))
    E = S.entry
    sn = S.sn(E)
    ps = [p for p in S.paths(E, 3) if goal_kinds(p).get("op") == "Not"]
    ctx.stats["paths_walked"] += len(ps)
    if not ps:
        ctx.missing("R1", "the Not arm of the solver entry")
        return
    head = ("field", ("field", sn, "head_sn"), "Some.0")
    n_some = n_none = 0
    r1 = r2 = r3 = True
    w1 = w2 = w3 = ""
    for p in ps:
        searches = [e for e in p.calls() if e["callee"] == E.path]
        ms_reads = [(i, e) for i, e in enumerate(p.events) if e["k"] == "branch" and
                    mentions(e["cond"], lambda x: x == ("field", sn, "more_solutions"))]
        if not searches:
            # allowed only: the one-shot guard (more_solutions false -> None) or the missing-node panic
            if p.end == "return" and not is_none(p.ret):
                r1, w1 = False, "a path without a sub-search returns %s" % show(p.ret)
            continue
        if len(searches) != 1 or strip(searches[0]["args"][0]) != head:
            r1, w1 = False, "the Not arm searches %s (exactly one search of its head node expected)" % \
                [show(s["args"][0]) for s in searches]
            continue
        si = p.events.index(searches[0])
        if not ms_reads or ms_reads[0][0] > si:
            r3, w3 = False, "the sub-search is not preceded by the one-shot guard on more_solutions"
        res = searches[0]["result"]
        outcome = outcome_of(p, res)
        if outcome == "Some":
            n_some += 1
            if p.end != "return" or not is_none(p.ret):
                r1, w1 = False, "G has an answer but not(G) returns %s" % (show(p.ret) if p.ret else p.end)
        elif outcome == "None":
            n_none += 1
            pl = some_payload(p.ret) if p.end == "return" else None
            if pl is None:
                r1, w1 = False, "G has no answer but not(G) returns %s" % (show(p.ret) if p.ret else p.end)
            elif strip(pl) != ("field", sn, "ss"):
                r2, w2 = False, "not(G) succeeds with %s instead of a clone of its own incoming set" % show(pl)
            cleared = [e for e in p.events if e["k"] == "write" and e["place"] == ("field", sn, "more_solutions")
                       and const_false(e["value"])]
            if not cleared:
                r3, w3 = False, "more_solutions is not cleared on the successful path: not(G) could succeed twice"
        else:
            r1, w1 = False, "the result of the sub-search is not examined"
    if n_some == 0 or n_none == 0:
        r1, w1 = False, "the two outcomes of the sub-search were not both found (Some: %d, None: %d)" % (n_some, n_none)
    ctx.ob("R1", "not-table", r1, ctx.where(E), w1 or "Some(_) -> None; None -> Some(S) (%d+%d paths)" % (n_some, n_none))
    ctx.ob("R2", "not-result-set", r2, ctx.where(E), w2 or "S is a clone of the node's own ss")
    ctx.ob("R3", "not-once", r3, ctx.where(E), w3 or "guard before the sub-search; flag cleared before the successful return")
    # ---- R4 -------------------------------------------------------------
    M = S.make_node
    inc = ("param", 3, M.locals[3].get("name") or "")
    kbp = ("param", 2, M.locals[2].get("name") or "")
    mps = [p for p in S.paths(M, 2) if goal_kinds(p).get("op") in ("Not", "Time", ("Not", "Time"), ("Time", "Not"))
           or any(c[0] == "variant" and isinstance(v, tuple) and "Not" in v for c, v, bb in p.decisions)]
    ctx.stats["paths_walked"] += len(mps)
    ok, why = bool(mps), "no path for the Not arm of make_solution_node"
    for p in mps:
        if p.end != "return":
            continue
        ssw = [e for e in p.events if e["k"] == "write" and e["field"] == "ss"]
        if not ssw or strip(ssw[-1]["value"]) != inc:
            ok, why = False, "the Not node's ss is %s, not the incoming set" % (show(ssw[-1]["value"]) if ssw else "unset")
        rec = [e for e in p.calls() if e["callee"] == M.path]
        if len(rec) != 1:
            ok, why = False, "the Not arm builds %d sub-nodes" % len(rec)
            continue
        a = rec[0]["args"]
        g = strip(a[0])
        good_goal = g[0] == "index" or (g[0] == "call" and g[1].endswith("::index") and g[2][1][0] == "const" and g[2][1][3] == 0)
        if not good_goal:
            ok, why = False, "the sub-node's goal is %s, not goals[0]" % show(g)
        if strip(a[1]) != kbp or strip(a[2]) != inc:
            ok, why = False, "the sub-node gets kb/set (%s, %s), not the incoming ones" % (show(a[1]), show(a[2]))
        node = strip(a[3])
        # stored as head_sn of the new node (directly or through a helper taking (node, head))
        stored = any(e["k"] == "write" and e["field"] == "head_sn" for e in p.events) or \
            any(e["k"] == "call" and len(e["args"]) == 2 and strip(e["args"][0]) == node and
                strip(e["args"][1]) == rec[0]["result"] for e in p.events)
        if not stored:
            ok, why = False, "the sub-node is not stored as the Not node's head_sn"
        if p.ret is None or strip(p.ret) != node:
            ok, why = False, "make_solution_node returns %s, not the Not node" % show(p.ret)
    ctx.ob("R4", "not-construction", ok, ctx.where(M), why if not ok else
           "node.ss and the sub-node both start from the incoming set; sub-goal = goals[0]; stored as head_sn")
    # ---- R5 -------------------------------------------------------------
    PS = prog.one("parse_goals::parse_subgoal")
    PO = prog.one("parse_goals::parse_operator_goal")
    if PS is None or PO is None:
        ctx.missing("R5", "parse_subgoal / parse_operator_goal")
        return
    ctx.fn(PS)
    ctx.fn(PO)
    pops = Walker(PO, max_visits=2).paths()
    got = {}
    for p in pops:
        lit = str_cell(p)
        if lit is None or p.end != "return":
            continue
        r = p.ret
        try:
            g = dict(r[3])["0"]
            o = dict(g[3])["0"]
            got[lit] = (r[2], g[2], o[2])
        except Exception:
            got[lit] = ("?", "?", show(r))
    for lit, want in (("not", "Not"), ("time", "Time")):
        ctx.ob("R5", "operator(%s)" % lit, got.get(lit) == ("Ok", "OperatorGoal", want), ctx.where(PO),
               "`%s(..)` parses to %s" % (lit, got.get(lit)))
    # parse_subgoal: functor == "not" -> parse_operator_goal
    routed = set()
    for bb, t in PS.calls():
        pass
    wps = Walker(PS, max_visits=2, max_paths=400000)
    try:
        pss = wps.paths()
    except Exception as e:
        ctx.ob("R5", "routing", False, ctx.where(PS), "cannot enumerate parse_subgoal: %s" % e)
        return
    ctx.stats["paths_walked"] += len(pss)
    for p in pss:
        for e in p.events:
            if e["k"] == "branch" and e["value"] is True and e["cond"][0] == "call" and e["cond"][1].endswith("::eq"):
                lits = [a[2].strip('"') for a in e["cond"][2] if a[0] == "const" and a[2].startswith('"')]
                if lits and lits[0] in ("not", "time"):
                    if any(x["callee"] == PO.path for x in p.calls()) and p.end == "return" and \
                            p.ret[0] == "call" and p.ret[1] == PO.path:
                        routed.add(lits[0])
    for lit in ("not", "time"):
        ctx.ob("R5", "routing(%s)" % lit, lit in routed, ctx.where(PS),
               "functor `%s` is handed to the operator parser" % lit)
