"""C04 — output side effects occur once per execution, in search order."""
from solver import outcome_of, Solver, goal_kinds, real_calls, is_none, some_payload, str_cell, const_false
from callgraph import CallGraph
from sym import Walker, strip, show, mentions

EXPLANATION = ("Structural necessary conditions of C04: (who may print) among the functions reachable from the solver "
               "entry, text is written to stdout only by the `print`, `print_list` and `nl` cells of the built-in "
               "dispatcher (and the helpers only they call) and by the elapsed-time printer of time(..); every such cell "
               "lies behind the one-shot guard of its node (once per execution of the goal) and returns the node's own "
               "set unchanged (output built-ins neither fail nor bind); print renders the bound value of each argument. "
               "Decides where and how often output can happen, not the formatted text.")
RULES = ("R1 solver-reachable functions that reach std::io::_print = print cells + elapsed printer, with print_kb/print_ss "
         "as positive examples of non-solver print sites; R2 each output cell is dominated by the one-shot guard with the "
         "flag cleared first; R3 the three cells return Some(clone of own ss); R4 next_solution_print formats "
         "get_ground_term(arg) when bound, else the argument, in argument order, and prints once; R5 the `%s` marker is "
         "searched only in the first argument (format string), never in text that already contains substituted values")
TRUSTED = ["rustc nightly MIR construction", "std::io::_print is the only stdout writer used (print!/println!)"]

PRINT_FNS = {"std::io::_print", "std::io::stdout", "std::io::Stdout::write", "std::io::Write::write_all"}   # stdout only: C04 is observed there
OUT_CELLS = ("print", "print_list", "nl")
# the built-in predicates of the documented language: only print / print_list / nl among them write anything.  A built-in
# with a name outside this vocabulary (added later, e.g. `write`) may print: programs that do not use it cannot tell.
DOCUMENTED_BUILTINS = ("print", "append", "functor", "include", "exclude", "print_list", "unify", "equal", "less_than",
                       "less_than_or_equal", "greater_than", "greater_than_or_equal", "nl", "!", "count", "fail")


def run(ctx):
    prog = ctx.prog
    S = Solver(prog, ctx)
    for nm in ("entry", "bip_fn", "and_fn", "or_fn"):
        if getattr(S, nm) is None:
            ctx.missing("anchors", nm)
            return
        ctx.fn(getattr(S, nm))
    E, B = S.entry, S.bip_fn
    cg = CallGraph(prog, crates=["suiron-lib"])
    direct = {p for p in cg.nodes if cg.ext[p] & PRINT_FNS}
    reach = cg.reach([E.path])
    ctx.extra["solver_reachable_functions"] = len(reach)
    # cells of the built-in dispatcher
    bsn = S.sn(B)
    bps = S.paths(B, 2)
    ctx.stats["paths_walked"] += len(bps)
    cell_callees = {}
    for p in bps:
        c = str_cell(p)
        if c is None:
            continue
        for e in real_calls(p):
            if e["callee"] in cg.nodes:
                cell_callees.setdefault(c, set()).add(e["callee"])
    allowed = set()
    new_cells = sorted(c for c in cell_callees if c not in DOCUMENTED_BUILTINS)
    for c in ("print", "print_list") + tuple(new_cells):
        for f in cell_callees.get(c, ()):
            allowed |= cg.reach([f])
    if new_cells:
        ctx.note("built-ins outside the documented vocabulary (may print): %s" % new_cells)
    # elapsed printer: called in the Time arm after the sub-search
    time_printers = set()
    for p in S.paths(E, 3):
        if goal_kinds(p).get("op") == "Time":
            seen_search = False
            for e in real_calls(p):
                if e["callee"] == E.path:
                    seen_search = True
                elif seen_search and e["callee"] in cg.nodes and (cg.reach([e["callee"]]) & direct):
                    time_printers |= cg.reach([e["callee"]])
    allowed |= time_printers
    printers_in_solver = sorted(direct & reach)
    ctx.floor("R1", len(printers_in_solver), 3, "solver-reachable functions that write to stdout")
    for f in printers_in_solver:
        b = cg.nodes[f]
        ctx.fn(b)
        if f == B.path:
            # the dispatcher itself may print only in the `nl` cell
            bad = None
            for p in bps:
                pr = [e for e in p.calls() if e["callee"] in PRINT_FNS]
                if pr and (str_cell(p) is None or (str_cell(p) != "nl" and str_cell(p) in DOCUMENTED_BUILTINS)):
                    bad = (p, pr[0])
            ctx.ob("R1", "printer(%s)" % b.npath, bad is None, ctx.where(b, bad[1]["line"] if bad else None),
                   "the dispatcher writes to stdout in cell `%s`" % str_cell(bad[0]) if bad else
                   "the dispatcher writes to stdout only in its `nl` cell")
            continue
        ctx.ob("R1", "printer(%s)" % b.npath, f in allowed, ctx.where(b),
               "solver-reachable function writes to stdout but is neither under the print/print_list cells nor the "
               "elapsed-time printer: extra output during the search" if f not in allowed else
               "reached only through the print cells / the time(..) arm")
    # positive example: print sites outside the solver must exist (rule is not vacuous)
    outside = sorted(direct - reach)
    ctx.ob("R1", "positive-example", any(x.endswith("print_kb") or x.endswith("print_ss") for x in outside), "",
           "print sites not reachable from the solver were found: %s" % [x.split("::")[-1] for x in outside][:6])
    # ---- R2/R3 ------------------------------------------------------------
    for c in OUT_CELLS:
        cps = [p for p in bps if str_cell(p) == c]
        if not cps:
            ctx.missing("R2", "cell `%s` of the built-in dispatcher" % c)
            continue
        ok2, ok3, w2, w3 = True, True, "", ""
        for p in cps:
            # output calls: a print macro's runtime call, or a call of a function from which one is reachable
            # (events walked into from an inlined helper are the helper's own calls: counted there, not twice)
            outs = [e for e in p.calls() if not e.get("inlined") and (
                e["callee"] in PRINT_FNS or (e["callee"] in cg.nodes and e["callee"] in allowed and (cg.reach([e["callee"]]) & direct)))]
            if not outs:
                ok2, w2 = False, "cell `%s` produces no output on some path" % c
                continue
            i0 = p.events.index(outs[0])
            guard = [e for e in p.events[:i0] if e["k"] == "branch" and mentions(e["cond"], lambda t: t == ("field", bsn, "more_solutions"))]
            clear = [e for e in p.events[:i0] if e["k"] == "write" and e["place"] == ("field", bsn, "more_solutions") and const_false(e["value"])]
            if not guard or not clear:
                ok2, w2 = False, "cell `%s` writes before the one-shot guard / before the flag is cleared" % c
            if len(outs) != 1:
                ok2, w2 = False, "cell `%s` performs %d output calls on one path" % (c, len(outs))
            pl = some_payload(p.ret) if p.end == "return" else None
            if pl is None or strip(pl) != ("field", bsn, "ss"):
                ok3, w3 = False, "cell `%s` returns %s, not Some(clone of own ss)" % (c, show(p.ret) if p.ret else p.end)
        ctx.ob("R2", "once(%s)" % c, ok2, ctx.where(B), w2 or "one output call, after the guard and the flag clear")
        ctx.ob("R3", "keeps-set(%s)" % c, ok3, ctx.where(B), w3 or "returns Some(clone of own ss)")
    # ---- R4 ---------------------------------------------------------------
    P = None
    for f in cell_callees.get("print", ()):
        if f in direct:
            P = cg.nodes[f]
    if P is None:
        ctx.missing("R4", "the print built-in's implementation")
        return
    ctx.fn(P)
    import folds
    import inline
    import iters
    pol = inline.helpers(prog, keep=("get_ground_term",))
    pps = Walker(P, max_visits=3, inline=pol).paths()
    ctx.stats["paths_walked"] += len(pps)
    ok, why, n = True, "", 0
    for p in pps:
        if p.end != "return":
            continue
        prints = [e for e in p.calls() if e["callee"] in PRINT_FNS]
        if len(prints) > 1:
            ok, why = False, "print writes %d times on one path" % len(prints)
    # the strings handed to the formatter: one per argument, in order (a loop pushing them, or iter().map(..).collect())
    em = folds.element_map(prog, P, inline=pol)
    if em["err"]:
        ok, why = False, "how the arguments are rendered is not recognised (%s)" % em["err"]
    for v, is_elem, q, ev_ in em["pairs"]:
        n += 1
        upto = q.events.index(ev_) if ev_ is not None else len(q.events)
        gt = [x for x in q.events[:upto] if x["k"] == "call" and x["callee"].endswith("get_ground_term")]
        if not gt:
            ok, why = False, "an argument is rendered without looking up its binding"
            continue
        g = gt[-1]
        res = g["result"]
        dec = outcome_of(q, res)
        arg = strip(g["args"][0])
        if not is_elem(arg):
            ok, why = False, "the binding looked up (%s) is not that of the argument at this position" % show(arg)[:60]
        if dec == "Some":
            if not mentions(v, lambda t: t == ("field", res, "Some.0")):
                ok, why = False, "a bound argument is not rendered by its bound value"
        elif dec == "None":
            if not mentions(v, lambda t: t == arg) or mentions(v, lambda t: t == res):
                ok, why = False, "an unbound argument is not rendered as itself"
        else:
            ok, why = False, "the binding lookup result is not examined"
    ctx.ob("R4", "print-renders-bound-values", ok and n > 0, ctx.where(P), why or
           "each of %d pushed strings formats get_ground_term(arg) when bound, else arg" % n)

    # ---- R5: `%s` markers are looked for in the first argument only ------------------------------------------------
    # (text spliced in from the other arguments must never be searched for markers again)
    F = None
    for bb, t in P.calls():
        nm = t["callee"].get("resolved") or t["callee"]["path"]
        cand = next((b for b in prog.lib_bodies() if b.path == nm), None)
        if cand is not None and cand.mir["arg_count"] == 1 and "Vec<std::string::String>" in cand.locals[1]["s"]:
            F = cand
    if F is None:
        ctx.missing("R5", "the formatter called by the print built-in")
        return
    ctx.fn(F)
    strs = ("param", 1, F.locals[1].get("name") or "")
    # every print of the print built-in writes what the formatter returns: no path prints an argument directly (a lone
    # argument is still a format string: its unmatched `%s` markers are dropped by the formatter)
    okf, whyf, nf = True, "", 0
    for p in pps:
        if p.end != "return":
            continue
        for e in p.calls():
            if e["callee"] in PRINT_FNS:
                nf += 1
                if not any(mentions(a, lambda t: t[0] == "call" and t[1] == F.path) for a in e["args"]):
                    okf, whyf = False, "a path of the print built-in writes %s, which is not the formatter's result" % show(e["args"][0])[:80]
    ctx.ob("R4", "print-goes-through-formatter", okf and nf > 0, ctx.where(P), whyf or
           "every write of the print built-in prints %s(..) (%d print events)" % (F.name, nf))
    fps = Walker(F, max_visits=3, max_paths=50000, inline=pol).paths()
    ctx.stats["paths_walked"] += len(fps)
    n, bad = 0, None

    def is_marker(a):
        a = strip(a)
        return (a[0] == "static" and "FORMAT_SPECIFIER" in a[1]) or (a[0] == "const" and a[2].strip('"') == "%s") or \
            (a[0] == "field" and a[1][0] == "static")

    def first_string(t):
        t = strip(t)
        while t[0] == "call" and (t[1].endswith("::to_string") or t[1].endswith("::as_str") or t[1].endswith("::deref")):
            t = strip(t[2][0])
        return iters.first_of(t) == strs
    for p in fps:
        for e in p.calls():
            if len(e["args"]) >= 2 and any(is_marker(a) for a in e["args"][1:]):
                n += 1
                if not first_string(e["args"][0]):
                    bad = e
    ctx.ob("R5", "markers-only-in-format-string", bad is None and n > 0, ctx.where(F, bad["line"] if bad else None),
           "%s searches for the `%%s` marker in %s, which is not the first argument: text substituted from a later argument "
           "is scanned for markers again" % (bad["callee"].split("::")[-1], show(bad["args"][0])[:80]) if bad else
           "every marker search (%d call events) is on the first argument" % n)
