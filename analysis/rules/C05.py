"""C05 — an exhausted query stays exhausted."""
from solver import (outcome_of, Solver, goal_kinds, real_calls, is_none, some_payload, str_cell, const_false, const_true,
                    node_field_writes, NODE_TY)
from sym import Walker, strip, show, mentions
from facts import fmt_rv

EXPLANATION = ("Structural necessary conditions of C05: a query root is a ComplexGoal node; in the ComplexGoal arm an "
               "exhausted child is dropped before anything else happens, the exhausted exit (rule_index >= "
               "number_facts_rules -> None) precedes every clause fetch, and the exhausted path performs no call with an "
               "effect; the node state is monotone (who-may-write inventory over every store into a SolutionNode field in "
               "the crate): rule_index only += 1, construction-only fields written only by the constructors, "
               "more_solutions never set back to true, no_backtracking never set back to false, tail_sn never cleared; "
               "one-shot nodes (built-ins, time) clear more_solutions on every path past the guard.")
RULES = ("R1 make_base_node accepts only ComplexGoal; R2 ComplexGoal arm: child=None after a failed stored child, "
         "exhausted exit precedes get_rule, exhausted path is effect-free; R3 who-may-write table of SolutionNode fields; "
         "R4 BuiltIn and Time clear more_solutions past the guard; R5 every path of the solver arms that returns None "
         "does so after a failed sub-search, through a monotone guard, or with the one-shot flag already cleared; R6 every "
         "child node created by an arm is stored in the node (child / tail_sn) before it is searched")
TRUSTED = ["rustc nightly MIR construction"]

STDOUT_FNS = {"std::io::_print", "std::io::stdout", "std::io::Stdout::write", "std::io::Write::write_all"}
CONSTRUCTION_ONLY = {"number_facts_rules", "ss", "parent_node", "head_sn", "operator_tail", "goal", "kb"}


def write_only_field(prog, f):
    """Is SolutionNode.<f> never read, apart from derived impls and self-updates (`node.f += const`)?"""
    from solver import NODE_TY

    def is_f(pl):
        pr = pl.get("p") or []
        return bool(pr) and isinstance(pr[-1], dict) and pr[-1].get("field") == f and pr[-1].get("of") == NODE_TY

    def ops_of(j, out):
        if isinstance(j, dict):
            if j.get("k") in ("copy", "move") and isinstance(j.get("place"), dict):
                out.append(j)
            for k, v in j.items():
                if k != "place" or j.get("k") in ("ref", "rawptr", "discriminant", "len"):
                    ops_of(v, out)
            if j.get("k") in ("ref", "rawptr", "discriminant") and isinstance(j.get("place"), dict) and is_f(j["place"]):
                out.append({"k": "borrow", "place": j["place"]})
        elif isinstance(j, list):
            for v in j:
                ops_of(v, out)
        return out
    for b in prog.lib_bodies():
        if "Clone" in b.path or "fmt" in b.path or "Debug" in b.path:
            continue
        for blk in b.blocks:
            for st in blk["stmts"]:
                if st["k"] != "assign":
                    continue
                rv = st["rv"]
                for o in ops_of(rv, []):
                    if not is_f(o["place"]):
                        continue
                    self_update = rv.get("k") == "binop" and rv.get("op", "").startswith(("Add", "Sub")) and rv.get("l") is o and \
                        rv.get("r", {}).get("k") == "const"
                    if not self_update:
                        return False
            t = blk["term"]
            for o in ops_of({k: v for k, v in t.items() if k in ("args", "discr")}, []):
                if is_f(o["place"]):
                    return False
    return True


def run(ctx):
    prog = ctx.prog
    S = Solver(prog, ctx)
    crate_fns = {b.path for b in prog.lib_bodies()}
    for nm in ("entry", "make_node", "make_base", "bip_fn", "and_fn", "or_fn", "setter"):
        if getattr(S, nm) is None:
            ctx.missing("anchors", nm)
            return
        ctx.fn(getattr(S, nm))
    E = S.entry
    sn = S.sn(E)
    # ---- R1 -------------------------------------------------------------
    MB = S.make_base
    ok = True
    kinds_ok = set()
    for p in S.paths(MB, 2):
        g = goal_kinds(p).get("goal")
        if p.end == "return":
            if g != "ComplexGoal":
                ok = False
            else:
                kinds_ok.add(g)
    ctx.ob("R1", "base-node-is-complex", ok and kinds_ok == {"ComplexGoal"}, ctx.where(MB),
           "make_base_node returns a node only for Goal::ComplexGoal")
    # ---- R2 -------------------------------------------------------------
    ps = [p for p in S.paths(E, 3) if goal_kinds(p).get("goal") == "ComplexGoal"]
    ctx.stats["paths_walked"] += len(ps)
    child = ("field", ("field", sn, "child"), "Some.0")
    a_ok, a_why, n_a = True, "", 0
    b_ok, b_why, n_b = True, "", 0
    c_ok, c_why, n_c = True, "", 0
    for p in ps:
        ev = p.events
        # (a) stored child failed -> child = None before any other call
        for i, e in enumerate(ev):
            if e["k"] == "call" and e["callee"] == E.path and strip(e["args"][0]) == child:
                res = e["result"]
                failed = outcome_of(p, res) == "None"
                returned = p.end == "return" and p.ret == res
                if failed and not returned:
                    n_a += 1
                    nxt = [x for x in ev[i + 1:] if (x["k"] == "call" and x in real_calls(p) and
                                                      not x["callee"].endswith("is_some") and not x["callee"].endswith("is_none"))
                           or (x["k"] == "write" and x["place"] == ("field", sn, "child"))]
                    if not nxt or nxt[0]["k"] != "write" or not is_none(nxt[0]["value"]):
                        a_ok, a_why = False, "after the stored child failed (line %d) the node does not clear `child` first" % e["line"]
        # (b) every get_rule is preceded (since the previous get_rule) by the exhausted test, False edge
        last = 0
        for i, e in enumerate(ev):
            if e["k"] == "call" and S.is_fetch(e["callee"]):
                n_b += 1
                seg = ev[last:i]
                good = any(x["k"] == "branch" and x["cond"][0] == "binop" and x["cond"][1] in ("Ge", "Lt", "Gt", "Le") and
                           mentions(x["cond"], lambda t: t[0] == "field" and t[2] == "rule_index") and
                           mentions(x["cond"], lambda t: t == ("field", sn, "number_facts_rules")) for x in seg)
                if not good:
                    b_ok, b_why = False, "get_rule at line %d is not preceded by the exhausted test" % e["line"]
                # index argument is the node's rule_index
                idx = strip(e["args"][2])
                base = idx
                while base[0] == "binop" and base[1] in ("Add", "Sub"):
                    base = strip(base[2])
                if base != ("field", sn, "rule_index"):
                    b_ok, b_why = False, "get_rule is indexed by %s, not the node's rule_index" % show(idx)
                last = i
        # (c) exhausted exit without child: no effectful call
        rc = real_calls(p)
        if p.end == "return" and is_none(p.ret) and not any(S.is_fetch(e["callee"]) or e["callee"] == E.path
                                                           for e in rc):
            first = next((e for e in ev if e["k"] == "branch"), None)
            if first is not None and first["value"] is False:
                n_c += 1
                # effectful = a call into the crate (it may search, fetch, mutate) or something written to stdout; pure std
                # calls (formatting, environment lookups, a trace on stderr) do not change what a re-ask reports
                eff = [e for e in rc if e["callee"] not in S.flag_readers and not e["callee"].endswith("get_goal") and
                       S.effectful(e)]
                if eff:
                    c_ok, c_why = False, "the exhausted path calls %s" % eff[0]["callee"]
    ctx.ob("R2", "child-dropped", a_ok and n_a > 0, ctx.where(E), a_why or "child = None is the first effect after a failed stored child (%d paths)" % n_a)
    ctx.ob("R2", "exhausted-exit-first", b_ok and n_b > 0, ctx.where(E), b_why or "each of %d clause fetches follows the exhausted test and uses rule_index" % n_b)
    ctx.ob("R2", "exhausted-path-pure", c_ok and n_c > 0, ctx.where(E), c_why or "the exhausted exit performs no effectful call (%d paths)" % n_c)
    # ---- R3 -------------------------------------------------------------
    ctors = {S.make_node.path, S.make_base.path}
    inv = node_field_writes(prog)
    ctx.floor("R3", len(inv), 40, "stores into SolutionNode fields")
    per_field = {}
    for b, i, s, f, rv in inv:
        per_field.setdefault(f, []).append((b, i, s, rv))
    # constructor-like: `new`, derived Clone, and helpers called only with a node that is being constructed
    from callgraph import CallGraph
    cg_ = CallGraph(prog, crates=["suiron-lib"])
    callers_of = {}
    for pth, tgts in cg_.edges.items():
        for tg in tgts:
            callers_of.setdefault(tg, set()).add(pth)

    def is_ctor(b, depth=0):
        if b.path in ctors or b.name == "new" or "Clone" in b.path:
            return True
        # a private helper reached only from the constructors (part of building the node, split off)
        if b.is_pub or b.kind not in ("Fn", "AssocFn") or depth > 3:
            return False
        cs = callers_of.get(b.path, set()) - {b.path}
        return bool(cs) and all(c in cg_.nodes and is_ctor(cg_.nodes[c], depth + 1) for c in cs)
    for f in sorted(per_field):
        bad = None
        for b, i, s, rv in per_field[f]:
            txt = fmt_rv(b, rv) if rv and rv.get("k") != "mutborrow" else (rv["k"] if rv else "call result")
            if rv is not None and rv.get("k") == "mutborrow":
                bad = (b, s, "a mutable borrow of the field escapes (unknown write)")
                continue
            if is_ctor(b):
                continue
            if f in CONSTRUCTION_ONLY:
                bad = (b, s, "written outside the node constructors")
            elif f == "rule_index":
                okv = rv is not None and b.path in S.entry_family and (
                    (rv["k"] == "use" and rv["op"]["k"] in ("move", "copy")) or (rv["k"] == "binop" and rv["op"] == "Add"))
                if okv:
                    # the stored value must be rule_index + 1 (checked on paths)
                    for p in ps:
                        for e in p.events:
                            if e["k"] == "write" and e["place"] == ("field", sn, "rule_index"):
                                v = strip(e["value"])
                                if not (v[0] == "binop" and v[1] == "Add" and
                                        strip(v[2]) == ("field", sn, "rule_index") and v[3][0] == "const" and v[3][3] == 1):
                                    okv = False
                if not okv:
                    bad = (b, s, "rule_index is assigned %s (only `+= 1` in the solver entry is allowed)" % txt)
            elif f == "more_solutions":
                if not (rv is not None and rv["k"] == "use" and rv["op"]["k"] == "const" and rv["op"].get("int") == 0):
                    bad = (b, s, "more_solutions is assigned %s (never true again)" % txt)
            elif f == "no_backtracking":
                if not (rv is not None and rv["k"] == "use" and rv["op"]["k"] == "const" and rv["op"].get("int") == 1):
                    bad = (b, s, "no_backtracking is assigned %s (never false again)" % txt)
            elif f == "tail_sn":
                if rv is not None and rv["k"] == "aggregate" and rv.get("variant") == "None":
                    bad = (b, s, "tail_sn is cleared")
            elif f == "child":
                pass  # Some(new child) / None after exhaustion: R2
            elif write_only_field(prog, f):
                pass  # a field nothing ever reads (statistics, tracing): it cannot influence what the search does
            else:
                bad = (b, s, "a field this rule does not know is written and also read: its role in the search state is not classified")
        ctx.ob("R3", "field(%s)" % f, bad is None, ctx.where(bad[0], bad[1]["line"]) if bad else "",
               bad[2] if bad else "%d store(s), all allowed" % len(per_field[f]))
    # ---- R4 -------------------------------------------------------------
    B = S.bip_fn
    bsn = S.sn(B)
    bps = S.paths(B, 2)
    ctx.stats["paths_walked"] += len(bps)
    ok, why, n = True, "", 0
    for p in bps:
        first = next((e for e in p.events if e["k"] == "branch"), None)
        if first is None or not mentions(first["cond"], lambda t: t == ("field", bsn, "more_solutions")):
            ok, why = False, "the first decision of the built-in dispatcher is not the one-shot guard"
            break
        guard_open = first["value"] == (first["cond"][0] != "unop")   # `!more` False  <=> more true
        # value semantics: cond may be Not(more_solutions) or more_solutions itself
        c = first["cond"]
        more_true = (first["value"] is False) if (c[0] == "unop" and c[1] == "Not") else (first["value"] is True)
        rc = real_calls(p)
        if not more_true:
            if rc or p.end != "return" or not is_none(p.ret):
                ok, why = False, "with more_solutions false the dispatcher does not return None at once"
            continue
        n += 1
        wr = [e for e in p.events if e["k"] == "write" and e["place"] == ("field", bsn, "more_solutions")]
        idx_first_call = p.events.index(rc[0]) if rc else len(p.events)
        if not wr or not const_false(wr[0]["value"]) or p.events.index(wr[0]) > idx_first_call:
            ok, why = False, "more_solutions is not cleared before the built-in runs (cell %s)" % str_cell(p)
    ctx.ob("R4", "builtin-one-shot", ok and n >= 10, ctx.where(B), why or "guard first, flag cleared before any cell runs (%d paths)" % n)
    tps = [p for p in S.paths(E, 3) if goal_kinds(p).get("op") == "Time"]
    ok, why, n = True, "", 0
    for p in tps:
        searches = [e for e in p.calls() if e["callee"] == E.path]
        if not searches:
            continue
        n += 1
        wr = [e for e in p.events if e["k"] == "write" and e["place"] == ("field", sn, "more_solutions") and const_false(e["value"])]
        if not wr or p.events.index(wr[0]) > p.events.index(searches[0]):
            ok, why = False, "time(..) does not clear more_solutions before searching"
    ctx.ob("R4", "time-one-shot", ok and n > 0, ctx.where(E), why or "flag cleared before the timed search (%d paths)" % n)
    # ---- R5: every None return is caused by exhaustion of a child, a monotone guard, or is latched ----------
    solver_fns = {E.path, S.and_fn.path, S.or_fn.path, S.bip_fn.path}
    arms = [("entry", E, S.paths(E, 3)), ("and", S.and_fn, S.paths(S.and_fn, 3)), ("or", S.or_fn, S.paths(S.or_fn, 2))]
    for nm, F, fps in arms:
        fsn = S.sn(F)
        bad = None
        n = 0
        for p in fps:
            if p.end != "return" or not is_none(p.ret):
                continue
            searches = [e for e in p.calls() if e["callee"] in solver_fns]
            if not searches:
                continue    # a guard exit: no sub-search was made (monotone by R3)
            n += 1
            last = searches[-1]
            res = last["result"]
            exhausted = outcome_of(p, res) == "None"
            if exhausted:
                continue
            # the last sub-search had an answer, yet the node reports None: must be latched (one-shot flag cleared
            # before the search, behind the guard on the same flag) so that a further request cannot search again
            li = p.events.index(last)
            latch = [e for e in p.events[:li] if e["k"] == "write" and e["place"] == ("field", fsn, "more_solutions")
                     and const_false(e["value"])]
            guard = [e for e in p.events[:li] if e["k"] == "branch" and
                     mentions(e["cond"], lambda t: t == ("field", fsn, "more_solutions"))]
            if not (latch and guard):
                bad = (p, last)
        ctx.ob("R5", "none-is-final(%s)" % nm, bad is None and n > 0, ctx.where(F, bad[1]["line"] if bad else None),
               "a path returns None although its last sub-search (line %d) had an answer, without closing the node "
               "(more_solutions = false behind its guard): asked again, the node searches further and can succeed after "
               "having reported exhaustion — `g(1). t(a) :- not(g(1)).` answers nothing, then t(a)" % bad[1]["line"]
               if bad else "every None return follows a failed sub-search, a monotone guard or a latched one-shot flag (%d paths)" % n)
    # ---- R6: a child node that is created is stored before it is searched ----------------------------------------
    # (re-entry then resumes the stored, possibly exhausted, child instead of building a fresh one whose goals —
    #  including print/nl — would run again after the query had reported exhaustion)
    M_ = S.make_node
    for nm, F, fps in arms:
        fsn = S.sn(F)
        bad = None
        n = 0
        for p in fps:
            ev = p.events
            for i, e in enumerate(ev):
                if e["k"] == "call" and e["callee"] == M_.path:
                    node = e["result"]
                    n += 1
                    search = next((j for j in range(i + 1, len(ev)) if ev[j]["k"] == "call" and ev[j]["callee"] in solver_fns
                                   and strip(ev[j]["args"][0]) == node), len(ev))
                    stored = [x for x in ev[i + 1:search] if x["k"] == "write" and x["place"][0] == "field" and x["place"][1] == fsn
                              and x["place"][2] in ("child", "tail_sn", "head_sn") and strip(some_payload(x["value"]) or ()) == node]
                    if not stored:
                        bad = e
        ctx.ob("R6", "child-stored-before-search(%s)" % nm, bad is None and n > 0, ctx.where(F, bad["line"] if bad else None),
               "the node created at line %d is searched without first being stored in child/tail_sn: asked again after "
               "exhaustion, this node builds a fresh child and runs its goals (and their output) again" % bad["line"] if bad else
               "every created child is stored in the node before it is searched (%d creation events)" % n)
    # INFO: Not arm
