"""C06 — unification returns an mgu extending prior bindings (structural part)."""
import utable
from utable import summarize, is_param
from sym import Walker, strip, show, mentions
import fdeval
from solver import outcome_of
import iters

EXPLANATION = ("Structural necessary conditions of C06 decided over all CFG paths of Unifiable::unify: constants unify "
               "exactly when their payloads are equal and never with another kind, a complex term or a list; a variable "
               "operand is dereferenced when bound and bound otherwise, and the other operand kinds swap to the variable; "
               "the binder returns a fresh vector that receives every old entry plus exactly one new entry at the "
               "variable's own id holding the other term; element-wise recursion threads the set returned for one pair "
               "into the next and fails as soon as a pair fails. Decides these shapes, not most-generality for all pairs.")
RULES = ("R1 constant cells: COND(payload equality ≡ {Equal}) on the diagonal, FAIL off it; R2 (LogicVar,x) = {DEREF,BIND}, "
         "(x,LogicVar) = {SWAP}; R3 BIND = fresh vec of length ≥ old, copy of all old entries, one store at self.id of a "
         "clone of other; R4 complex/list recursion threads the running set and propagates failure")
TRUSTED = ["rustc nightly MIR construction", "Vec/Rc std semantics", "iter().enumerate() visits every entry with its index"]
CONSTS = ["Atom", "SFloat", "SInteger"]


def payload(side, variant):
    return ("field", side, "%s.0" % variant)


def run(ctx):
    prog = ctx.prog
    body, table = utable.build(prog, ctx)
    if body is None:
        ctx.missing("R1", "Unifiable::unify")
        return
    sp = ("param", 1, body.locals[1].get("name") or "")
    op = ("param", 2, body.locals[2].get("name") or "")
    ssp = ("param", 3, body.locals[3].get("name") or "")
    # ---- R1 ------------------------------------------------------------
    for v in CONSTS:
        cell = table[(v, v)]
        L, R = payload(sp, v), payload(op, v)
        ok = True
        why = []
        succ = set()
        try:
            for oc, rel, p in cell.paths:
                if oc == "EQKEEP":
                    # the `self == other` shortcut: for two constants of one kind, derived equality is equality of the
                    # payloads, so this path is taken exactly for the ordering Equal
                    succ.add("Equal")
                    continue
                if oc not in ("KEEP", "FAIL"):
                    ok = False
                    why.append("outcome %s" % oc)
                    continue
                eq_false = any(utable.is_eq_self_other(c) and v is False for c, v, _ in p.decisions if c[0] != "variant")
                for o in fdeval.ORDERINGS:
                    if eq_false and o == "Equal":
                        continue        # `self == other` was found false on this path: the payloads differ
                    if fdeval.path_feasible(rel, L, R, o):
                        if oc == "KEEP":
                            succ.add(o)
        except fdeval.Unknown as e:
            ok = False
            why.append("condition not interpretable: %s" % e)
        if succ != {"Equal"}:
            ok = False
            why.append("succeeds for orderings %s of the payloads, required exactly {Equal}" % sorted(succ))
        ctx.ob("R1", "diag(%s)" % v, ok and not cell.truncated, ctx.where(body), "; ".join(why) or
               "succeeds exactly when the two payloads are equal")
    off = []
    for a in CONSTS:
        for b in CONSTS + ["SComplex", "SLinkedList"]:
            if a == b or {a, b} == {"SFloat", "SInteger"}:
                continue
            off.append((a, b))
            if b not in CONSTS:
                off.append((b, a))
    off += [("SComplex", "SLinkedList"), ("SLinkedList", "SComplex")]
    for a, b in off:
        s = summarize(table[(a, b)])
        ctx.ob("R1", "off(%s,%s)" % (a, b), s == {"FAIL"}, ctx.where(body),
               "outcomes %s; terms of different kinds have no unifier" % sorted(s))
    # ---- R2 ------------------------------------------------------------
    for x in CONSTS + ["LogicVar", "SComplex", "SLinkedList"]:
        c = table[("LogicVar", x)]
        s = summarize(c)
        allowed = {"DEREF", "BIND"} | ({"KEEP"} if x == "LogicVar" else set())   # aliased variables: nothing to add
        ctx.ob("R2", "var(%s)" % x, {"DEREF", "BIND"} <= s <= allowed, ctx.where(body),
               "outcomes %s; a variable must be dereferenced when bound and bound otherwise" % sorted(s))
        if x != "LogicVar":
            s2 = summarize(table[(x, "LogicVar")])
            ctx.ob("R2", "swap(%s)" % x, s2 == {"SWAP"}, ctx.where(body),
                   "outcomes %s; with the variable on the right the pair must be handed to the variable (SWAP)" % sorted(s2))
    # DEREF only when bound / BIND only when not bound: the decision separating them is a lookup at self.id
    c = table[("LogicVar", "Atom")]
    sid = ("field", sp, "LogicVar.id")
    for oc, rel, p in c.paths:
        if oc == "BIND" or oc == "DEREF":
            looked = [e for e in p.calls() if (e["callee"].endswith("::index") or e["callee"].endswith("::get")) and
                      len(e["args"]) == 2 and is_param(e["args"][0], 3) and strip(e["args"][1]) == sid]
            if not looked and oc == "DEREF":
                ctx.ob("R2", "deref-lookup", False, ctx.where(body), "DEREF without a lookup ss[self.id]")
                break
    else:
        ctx.ob("R2", "deref-lookup", True, ctx.where(body), "the bound/unbound decision reads ss[self.id]")
    # ---- R3 ------------------------------------------------------------
    w = utable.walker(prog, body, max_visits=3)
    ps = w.paths({sp: frozenset(["LogicVar"]), op: frozenset(["Atom"])})
    ctx.stats["paths_walked"] += len(ps)
    nb = 0
    r3 = {"fresh": True, "len": True, "copy": True, "one_store": True, "value": True}
    r3why = {}
    for p in ps:
        if utable.classify(p, body.path) != "BIND":
            continue
        nb += 1
        newv = strip(dict(p.ret[3]).get("0"))
        # fresh vector: from_elem(None, n) / clone of ss
        if newv[0] == "call" and "from_elem" in newv[1]:
            n = newv[2][1] if len(newv[2]) > 1 else None
            fill = newv[2][0]
            if not (fill[0] == "agg" and fill[2] == "None"):
                r3["fresh"] = False
                r3why["fresh"] = "fresh vector not filled with None: %s" % show(fill)
            # length: len(ss) or id+1
            okn = False
            n0 = strip(n)
            if n0[0] == "call" and n0[1].endswith("::len") and is_param(n0[2][0], 3):
                okn = True
                # requires the decision id >= len(ss) false
            if n0[0] == "binop" and n0[1] == "Add" and strip(n0[2]) == sid and n0[3][0] == "const" and n0[3][3] == 1:
                okn = True
            if n0[0] == "binop" and n0[1] == "Add" and strip(n0[2]) == sid and n0[3][3] == 1:
                okn = True

            def _is_len(t):
                t = strip(t)
                return t[0] == "call" and t[1].endswith("::len") and is_param(t[2][0], 3)

            def _is_id1(t):
                t = strip(t)
                return t[0] == "binop" and t[1] == "Add" and strip(t[2]) == sid and t[3][0] == "const" and t[3][3] == 1
            if n0[0] == "call" and n0[1].endswith("::max") and len(n0[2]) == 2 and \
                    ((_is_len(n0[2][0]) and _is_id1(n0[2][1])) or (_is_len(n0[2][1]) and _is_id1(n0[2][0]))):
                okn = True          # max(len(ss), id + 1): long enough for both the copy and the new entry
            if not okn:
                r3["len"] = False
                r3why["len"] = "length of the new vector is %s, not len(ss) or self.id+1" % show(n)
            elif n0[0] == "call" and n0[1].endswith("::len"):
                # the old length is kept: only allowed when self.id < len(ss) was established on this path
                est = False
                for c, v, bb in p.decisions:
                    if c[0] == "binop" and strip(c[2]) == sid and strip(c[3]) == n0 and \
                            ((c[1] == "Lt" and v is True) or (c[1] == "Ge" and v is False)):
                        est = True
                    if c[0] == "binop" and strip(c[3]) == sid and strip(c[2]) == n0 and \
                            ((c[1] == "Gt" and v is True) or (c[1] == "Le" and v is False)):
                        est = True
                if not est:
                    r3["len"] = False
                    r3why["len"] = "the new vector keeps the old length although self.id < len(ss) is not established on that path: the store at self.id can be out of range"
            copy_ok = None
        elif newv[0] == "clone" or (newv[0] == "call" and newv[1].endswith("to_vec")):
            copy_ok = True
        elif newv[0] == "call" and (newv[1].endswith("::with_capacity") or newv[1].endswith("Vec::<T>::new")):
            # an empty vector filled by `extend(ss.iter().cloned())` and padded by `resize(n, None)`
            ext = [e for e in p.calls() if e["callee"].endswith("::extend") and e["args"] and strip(e["args"][0]) == newv]
            rsz = [e for e in p.calls() if e["callee"].endswith("::resize") and len(e["args"]) == 3 and strip(e["args"][0]) == newv]
            lay = iters.layout(ext[0]["args"][1]) if len(ext) == 1 and len(ext[0]["args"]) == 2 else None
            if lay != ("elem", ssp, 0):
                r3["copy"] = False
                r3why["copy"] = "the fresh vector is not filled with all the old entries in order (extend(%s))" % (
                    show(ext[0]["args"][1])[:60] if ext else "none")
            copy_ok = True
            if len(rsz) == 1:
                fill = strip(rsz[0]["args"][2])
                n0 = strip(rsz[0]["args"][1])
                if not (fill[0] == "agg" and fill[2] == "None"):
                    r3["fresh"] = False
                    r3why["fresh"] = "padding is %s, not None" % show(fill)
                okn = (n0[0] == "binop" and n0[1] == "Add" and strip(n0[2]) == sid and n0[3][0] == "const" and n0[3][3] == 1) or \
                    (n0[0] == "call" and n0[1].endswith("::max"))
                if n0[0] == "call" and n0[1].endswith("::len") and is_param(n0[2][0], 3):
                    # the old length is kept: needs self.id < len(ss) on this path
                    okn = any(c[0] == "binop" and ((strip(c[2]) == sid and strip(c[3]) == n0 and ((c[1] == "Lt" and v is True) or (c[1] == "Ge" and v is False))) or
                                                   (strip(c[3]) == sid and strip(c[2]) == n0 and ((c[1] == "Gt" and v is True) or (c[1] == "Le" and v is False))))
                              for c, v, bb in p.decisions)
                if not okn:
                    r3["len"] = False
                    r3why["len"] = "the padded length %s is not len(ss) (with self.id < len established) or self.id+1" % show(n0)[:60]
            else:
                r3["len"] = False
                r3why["len"] = "the fresh vector is not padded to a length that covers self.id"
        else:
            r3["fresh"] = False
            r3why["fresh"] = "result vector is %s" % show(newv)
            continue
        # stores into the new vector, by index or through an iterator item (`*slot = ..` with slot from iter_mut / zip)
        stores = []
        for e in p.writes():
            pos = iters.position(e["place"])
            if pos is not None and pos[0] == newv:
                stores.append((pos[1], e["value"], e))
        own = [s for s in stores if s[0] == ("term", sid)]
        others = [s for s in stores if s[0] != ("term", sid)]
        if len(own) != 1:
            r3["one_store"] = False
            r3why["one_store"] = "%d stores at index self.id (exactly one required)" % len(own)
        else:
            val = own[0][1]
            v0 = strip(dict(val[3]).get("0")) if val[0] == "agg" and val[2] == "Some" else None
            if v0 is None or not is_param(v0, 2):
                r3["value"] = False
                r3why["value"] = "the new entry holds %s, not a clone of the other term" % show(val)
        # copy loop: every other store is new[k] = old[k] (same step of one forward iteration over all of ss)
        for key, val, e in others:
            okc = False
            v = strip(val)
            src = strip(dict(v[3]).get("0")) if v[0] == "agg" and v[2] == "Some" and v[3] else v
            if src[0] == "field" and src[2] == "Some.0":
                src = strip(src[1])
            sp_ = iters.position(src)
            if key[0] == "step" and key[2] == 0 and sp_ is not None and is_param(sp_[0], 3) and sp_[1] == key:
                okc = True
            if not okc:
                r3["copy"] = False
                r3why["copy"] = "store new[%s] = %s is not a copy of the old entry at the same index" % (show(key)[:60], show(val)[:80])
        # the loop must exist on paths that iterate (checked via presence of the iterator on every BIND path)
        if copy_ok is None:
            has_iter = any(e["callee"].endswith("::next") and ("elem", ssp, 0) in iters.leaves(iters.layout(e["args"][0]))
                           for e in p.calls())
            if not has_iter:
                r3["copy"] = False
                r3why["copy"] = "no copy of the old entries (no iteration over ss) before the new set is returned"
    if nb == 0:
        ctx.missing("R3", "a BIND path in cell(LogicVar,Atom)")
    else:
        for k in ("fresh", "len", "copy", "one_store", "value"):
            ctx.ob("R3", "bind-" + k, r3[k], ctx.where(body), r3why.get(k, "holds on %d BIND paths" % nb))
    # ---- R4 ------------------------------------------------------------
    for kind in ("SComplex", "SLinkedList"):
        ps = w.paths({sp: frozenset([kind]), op: frozenset([kind])})
        ctx.stats["paths_walked"] += len(ps)
        ok = True
        why = "running set threaded through %d paths"
        npaths = 0
        multi = 0
        for p in ps:
            ucalls = [e for e in p.calls() if e["callee"].endswith("Unifiable::unify")]
            if any(utable.is_eq_self_other(c) and v is True for c, v, _ in p.decisions if c[0] != "variant"):
                continue
            npaths += 1
            prev = None
            for i, e in enumerate(ucalls):
                s = strip(e["args"][2])
                if prev is None:
                    if not is_param(s, 3):
                        ok = False
                        why = "first element unification at line %d starts from %s, not the incoming set" % (e["line"], show(s))
                else:
                    want = ("field", prev["result"], "Some.0")
                    if s != want:
                        ok = False
                        why = "element unification at line %d uses %s, not the set returned for the previous pair" % (
                            e["line"], show(s))
                prev = e
            if len(ucalls) >= 2:
                multi += 1
            # failure propagates: a path on which an element unification returned None must return None
            for c, v, bb in p.decisions:
                if c[0] == "variant" and c[1][0] == "call" and c[1][1].endswith("Unifiable::unify") and v == "None":
                    if p.end == "return" and not (p.ret[0] == "agg" and p.ret[2] == "None"):
                        ok = False
                        why = "an element pair failed but the arm returns %s" % show(p.ret)
            # success value = the running set: the set returned for the last pair, or the incoming set when no
            # pair has been unified yet.  Outside the property's universe (and ignored): complex terms without
            # elements, and a `$_` in functor position (make_complex requires an atom there).
            if p.end == "return" and p.ret[0] == "agg" and p.ret[2] == "Some":
                pl = strip(dict(p.ret[3]).get("0"))
                running = ("field", ucalls[-1]["result"], "Some.0") if ucalls else ssp
                skip0 = any(utable.functor_position(x) for x in utable.anon_elements(p))
                iterated = any(e["k"] == "call" and (e["callee"].endswith("::index") or
                                                     (e["callee"].endswith("::next") and outcome_of(p, e["result"]) == "Some"))
                               for e in p.events) or kind == "SLinkedList"
                if kind == "SComplex" and (skip0 or not iterated):
                    pass
                elif pl != running:
                    ok = False
                    why = "a successful path returns %s, not the running set (%s): bindings made for earlier elements are dropped" % (
                        show(pl), show(running))
        if multi == 0:
            ok = False
            why = "no path with two element unifications was found (loop not recognised)"
        ctx.ob("R4", "thread(%s)" % kind, ok, ctx.where(body), why % npaths if "%d" in why else why)
    # unequal lengths fail
    cell = table[("SComplex", "SComplex")]
    lens_ok = False
    for oc, rel, p in cell.paths:
        for c, v in rel:
            if c[0] == "binop" and c[1] in ("Ne", "Eq") and all(
                    strip(x)[0] == "call" and strip(x)[1].endswith("::len") for x in (c[2], c[3])):
                neq = (c[1] == "Ne") == v
                if neq and oc == "FAIL" and len(rel) == 1:
                    lens_ok = True
    ctx.ob("R4", "arity", lens_ok, ctx.where(body), "complex terms of different lengths fail before any element is unified")
