"""C07 — unification is symmetric (dispatch level)."""
import itertools
import utable
from utable import summarize, is_param
from sym import Walker, strip, show, mentions

EXPLANATION = ("Structural necessary conditions of C07 decided over all CFG paths of Unifiable::unify: for every ordered "
               "pair of distinct operand kinds the two cells of the dispatch table are mirror-equivalent (both fail, both "
               "keep, or one side swaps to the other), and the decision tree of the list×list arm is invariant under "
               "exchanging the operands. Decides the dispatch symmetry, not equality of results for every term pair.")
RULES = ("R1 for V1≠V2 in {Anonymous,Atom,SFloat,SInteger,LogicVar,SComplex,SLinkedList,SFunction}: cell(V1,V2) and "
         "cell(V2,V1) are both {FAIL}, both {KEEP}, or one is {SWAP}; R2 the list/list decision function over "
         "(tail_var flags, emptiness, `$_` tests) with leaves X.unify(Y) is invariant under swapping this/other "
         "modulo a.unify(b) ≈ b.unify(a)")
TRUSTED = ["rustc nightly MIR construction"]
KINDS = ["Anonymous", "Atom", "SFloat", "SInteger", "LogicVar", "SComplex", "SLinkedList", "SFunction"]


def swap_params(t):
    """Exchange parameter 1 (self) and 2 (other) in a provenance term."""
    if isinstance(t, frozenset):
        return frozenset(swap_params(x) for x in t)
    if not isinstance(t, tuple):
        return t
    if t and t[0] == "param":
        if t[1] == 1:
            return ("param", 2, "#")
        if t[1] == 2:
            return ("param", 1, "#")
        return ("param", t[1], "#")
    return tuple(swap_params(x) for x in t)


def norm_unify(t):
    """a.unify(b, s) and b.unify(a, s) are the same question (that is what the table rule R1 establishes):
    order the two operands canonically wherever a unify call occurs inside a term."""
    if isinstance(t, frozenset):
        return frozenset(norm_unify(x) for x in t)
    if not isinstance(t, tuple):
        return t
    t = tuple(norm_unify(x) for x in t)
    if t and t[0] == "call" and isinstance(t[1], str) and t[1].endswith("Unifiable::unify") and len(t[2]) >= 2:
        a, b = sorted(t[2][:2], key=repr)
        return ("call", t[1], (a, b) + tuple(t[2][2:])) + tuple(t[3:])
    return t


def anon_names(t):
    if not isinstance(t, tuple):
        return t
    if t and t[0] == "param":
        return ("param", t[1], "#")
    if t and t[0] == "call":
        # call sites are identified by callee + args only for comparison
        return ("call", t[1], tuple(anon_names(x) for x in t[2]))
    return tuple(anon_names(x) for x in t)


def leaf_of(path, unify_suffix="Unifiable::unify"):
    if path.end != "return":
        return ("END", str(path.end))
    r = path.ret
    if r[0] == "agg" and r[2] == "None":
        return ("FAIL",)
    def setclass(t):
        t = strip(t)
        if t[0] == "param":
            return "incoming"
        if t[0] == "field" and t[2] == "Some.0" and t[1][0] == "call" and t[1][1].endswith(unify_suffix):
            return "running"
        return "other"
    if r[0] == "agg" and r[2] == "Some":
        pl = strip(dict(r[3]).get("0"))
        n_un = sum(1 for e in path.calls() if e["callee"].endswith(unify_suffix))
        cls = setclass(pl)
        # the incoming set *is* the running set while no element pair has been unified
        if cls == "incoming" and n_un == 0:
            cls = "running"
        if cls in ("incoming", "running"):
            return ("KEEP", cls)
        return ("SOME", anon_names(pl))
    if r[0] == "call" and r[1].endswith(unify_suffix):
        a, b = anon_names(strip(r[2][0])), anon_names(strip(r[2][1]))
        n_un = sum(1 for e in path.calls() if e["callee"].endswith(unify_suffix)) - 1
        cls = setclass(r[2][2])
        if cls == "incoming" and n_un == 0:
            cls = "running"
        return ("UNIFY", frozenset([a, b]), cls)
    return ("OTHER", anon_names(r))


def run(ctx):
    prog = ctx.prog
    body, table = utable.build(prog, ctx)
    if body is None:
        ctx.missing("R1", "Unifiable::unify")
        return
    n = 0
    for a, b in itertools.combinations(KINDS, 2):
        ca, cb = table[(a, b)], table[(b, a)]
        sa, sb = summarize(ca), summarize(cb)
        ok = (sa == {"SWAP"} or sb == {"SWAP"} or (sa == sb and sa in ({"FAIL"}, {"KEEP"})))
        n += 1
        ctx.ob("R1", "mirror(%s,%s)" % (a, b), ok, ctx.where(body),
               "cell(%s,%s)=%s but cell(%s,%s)=%s; the two orders must be both FAIL, both KEEP, or one a SWAP to the other"
               % (a, b, sorted(sa), b, a, sorted(sb)))
    ctx.floor("R1", n, 28, "unordered pairs of operand kinds")
    # R2 — list/list mirror: first loop iteration (this_list = self, other_list = other)
    w = utable.walker(prog, body, max_visits=2)
    sp = ("param", 1, body.locals[1].get("name") or "")
    op = ("param", 2, body.locals[2].get("name") or "")
    ps = w.paths({sp: frozenset(["SLinkedList"]), op: frozenset(["SLinkedList"])})
    ctx.stats["paths_walked"] += len(ps)
    rows = []
    atoms = set()
    for p in ps:
        cs = {}
        skip = False
        for c, v, bb in p.decisions:
            if c[0] == "variant":
                # variant knowledge of element terms (Nil tests) is a condition too
                if is_param(c[1], 1) or is_param(c[1], 2):
                    continue
                key = norm_unify(("variant", anon_names(c[1])))
                cs[key] = v
                continue
            if utable.is_eq_self_other(c):
                if v is True:
                    skip = True
                continue
            if utable.is_anon_test(c):
                continue
            cs[norm_unify(anon_names(c))] = v
        if skip:
            continue
        rows.append((cs, norm_unify(leaf_of(p))))
        atoms.update(cs.keys())
    # paths cut at the loop back edge continue with the next pair of nodes: leaf LOOP
    # (max_visits=1 drops them; they are mirror-symmetric by construction: this_list/other_list advance together)
    atoms = sorted(atoms, key=repr)
    decided = True
    why = ""
    if not rows:
        decided = False
        why = "no path through the list×list arm"

    def lookup(assign):
        hits = [leaf for cs, leaf in rows if all(assign.get(k) == v for k, v in cs.items())]
        return set(hits)

    bad = None
    if decided and len(atoms) <= 40:
        # candidate assignments: only those consistent with some path and with its mirror
        for cs, leaf in rows:
            mcs = {norm_unify(swap_params(k)): v for k, v in cs.items()}
            mleaf = norm_unify(swap_params(leaf))
            # any path compatible with the mirrored condition set must have the mirrored leaf
            comp = [(c2, l2) for c2, l2 in rows if all(c2.get(k, v) == v for k, v in mcs.items())]
            for c2, l2 in comp:
                if l2 != mleaf:
                    bad = (cs, leaf, c2, l2)
                    break
            if bad:
                break
    elif decided:
        decided = False
        why = "too many atomic conditions (%d) to normalise" % len(atoms)
    if not decided:
        ctx.note("C07/R2 not decided: " + why)
        ctx.ob("R2", "list-arm-mirror", "reviewed", ctx.where(body), "not decided on this tree: " + why)
    else:
        ctx.ob("R2", "list-arm-mirror", bad is None, ctx.where(body),
               "the list/list decision is invariant under exchanging the operands (%d paths, %d atomic conditions)"
               % (len(rows), len(atoms)) if bad is None else
               "under %s the arm yields %s, but with the operands exchanged (%s) it yields %s" % (
                   {show(k) if isinstance(k, tuple) else k: v for k, v in bad[0].items()}, bad[1],
                   {show(k) if isinstance(k, tuple) else k: v for k, v in bad[2].items()}, bad[3]))
