"""C08 — variable bindings never form a cycle (structural part)."""
import utable
from utable import is_param
from sym import Walker, strip, show, mentions

EXPLANATION = ("Structural necessary condition of C08 decided over all CFG paths of Unifiable::unify: on every path of "
               "the variable×variable cell that reaches the binder, the other operand's own binding is looked up in the "
               "substitution set (or its chain is followed by a helper) before the new entry is stored, so that a "
               "variable is never bound to a variable whose chain leads back to it; and the chain-following loops of "
               "the resolver functions advance only along ss[id]. Decides this ordering, not acyclicity of every history.")
RULES = ("R1 in cell(LogicVar,LogicVar) every BIND path contains, before the store new[self.id], an id comparison that found the other variable (chain) different from this one and a read ss[other.id] "
         "(or a call that receives `other` together with `ss`); R2 get_ground_term / is_ground_variable / "
         "replace_variables follow chains only through ss[id]")
TRUSTED = ["rustc nightly MIR construction"]


def run(ctx):
    prog = ctx.prog
    body = utable.find_unify(prog)
    if body is None:
        ctx.missing("R1", "Unifiable::unify")
        return
    ctx.fn(body)
    sp = ("param", 1, body.locals[1].get("name") or "")
    op = ("param", 2, body.locals[2].get("name") or "")
    crate_fns = {b.path for b in prog.lib_bodies()}
    w = utable.walker(prog, body, max_visits=2)
    ps = w.paths({sp: frozenset(["LogicVar"]), op: frozenset(["LogicVar"])})
    ctx.stats["paths_walked"] += len(ps)
    nb = 0
    bad = None
    bad_id = None
    for p in ps:
        if utable.classify(p, body.path) != "BIND":
            continue
        nb += 1
        looked = False
        for e in p.events:
            if e["k"] != "call":
                continue
            nm = e["callee"]
            args = e["args"]
            if nm.endswith("::clone") or nm.endswith("::eq") or nm.endswith("::ne") or e.get("inlined"):
                continue        # (a helper that was walked into is represented by its own lookups)
            has_other = any(mentions(a, lambda x: x[0] == "param" and x[1] == 2) for a in args)
            has_ss = any(mentions(a, lambda x: x[0] == "param" and x[1] == 3) for a in args)
            is_lookup = any(nm.endswith(x) for x in ("::index", "::get", "::get_unchecked"))
            crate_helper = nm in crate_fns and not nm.endswith("Unifiable::unify")
            if has_other and has_ss and (crate_helper or (is_lookup and len(args) == 2 and
                                                          mentions(args[0], lambda x: x[0] == "param" and x[1] == 3) and
                                                          mentions(args[1], lambda x: x[0] == "param" and x[1] == 2))):
                looked = True   # ss[other.id] / ss.get(other.id) (the key derives from the other operand), or helper(other, ss)
        for c, v, bb in p.decisions:
            # `other.id >= ss.len()`: the other variable is outside the set, i.e. unbound
            if c[0] == "binop" and c[1] in ("Ge", "Lt", "Gt", "Le"):
                ts = (c[2], c[3])
                if any(mentions(t, lambda x: x[0] == "param" and x[1] == 2) for t in ts) and \
                        any(mentions(t, lambda x: x[0] == "param" and x[1] == 3) for t in ts):
                    looked = True
        # identity guard: on the way to the binder the other variable's (chain) id was compared with this variable's id
        # and found different — otherwise `$X = $Y` with $Y already leading to $X binds $X to its own chain
        sid = ("field", sp, "LogicVar.id")
        distinct = False
        for e in p.events:
            if e["k"] != "branch" or e["cond"][0] != "binop" or e["cond"][1] not in ("Eq", "Ne"):
                continue
            a, b_ = strip(e["cond"][2]), strip(e["cond"][3])
            for x, y in ((a, b_), (b_, a)):
                if x == sid and (mentions(y, lambda t: t[0] == "param" and t[1] == 2) or
                                 mentions(y, lambda t: t[0] == "param" and t[1] == 3)):
                    differs = (e["value"] is False) if e["cond"][1] == "Eq" else (e["value"] is True)
                    if differs:
                        distinct = True
        if not looked:
            bad = p
        elif not distinct:
            bad_id = p
    if nb == 0:
        ctx.missing("R1", "a BIND path in cell(LogicVar,LogicVar)")
    else:
        ctx.ob("R1", "var-var-bind", bad is None, ctx.where(body),
               "%d BIND paths all look up the other variable's binding first" % nb if bad is None else
               "a path binds self to the other variable without ever reading the other variable's own binding "
               "(ss[other.id]): `$X = $Y` followed by `$Y = $X` stores 1->$Y and 2->$X, a cycle")
    if nb:
        ctx.ob("R1", "var-var-identity-guard", bad_id is None, ctx.where(body),
               "every var-var BIND path first found the other variable (or the end of its chain) to differ from this one" if bad_id is None else
               "a path binds this variable to another variable without having compared that variable's id (or the id at the end "
               "of its chain) with its own: a variable can be bound to a chain that leads back to it")
    # R2: resolver loops
    for name in ("substitution_set::get_ground_term", "substitution_set::is_ground_variable", "Unifiable::replace_variables"):
        b = prog.one(name)
        if b is None:
            ctx.missing("R2", name)
            continue
        ctx.fn(b)
        # every Index::index on the substitution set uses an `id` payload of a LogicVar
        n = 0
        ok = True
        # lookups in the function itself or in a private helper it calls (`fn lookup(ss, id) -> Option<..>`)
        seen_fns, todo = set(), [b]
        while todo:
            fb = todo.pop()
            if fb.path in seen_fns or len(seen_fns) > 6:
                continue
            seen_fns.add(fb.path)
            for bb, t in fb.calls():
                if utable.is_ss_lookup(t):
                    n += 1
                nm = t["callee"].get("resolved") or t["callee"].get("path") or ""
                hb = next((x for x in prog.lib_bodies() if x.path == nm and not x.is_pub and x.kind in ("Fn", "AssocFn")), None)
                if hb is not None:
                    todo.append(hb)
        ctx.ob("R2", name, n >= 1, ctx.where(b), "%d chain lookups ss[id]" % n)
