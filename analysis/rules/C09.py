"""C09 — `$_` matches anything and never binds."""
import re
import utable
from utable import VARIANTS, summarize

EXPLANATION = ("Structural necessary conditions of C09 decided over all CFG paths of Unifiable::unify: the row and the "
               "column `Anonymous` of the unification dispatch table (derived from MIR paths with variant refinement) are "
               "KEEP (= return Some(clone of the incoming set)) for every variant, so `$_` can neither fail nor bind on "
               "either side and in nested positions (element pairs are delegated to the same table); and no function "
               "returning a unification verdict constructs a verdict and drops it. Decides the dispatch, not the "
               "behaviour of every term pair.")
RULES = ("R1 cell(Anonymous,V) = cell(V,Anonymous) = {KEEP} for all 9 variants; R2 nested element pairs are delegated "
         "to unify or skipped; R3 no expression statement of the verdict type Option<Rc<SubstitutionSet>> (a dropped "
         "verdict) in any function returning that type")
TRUSTED = ["rustc nightly HIR/typeck/MIR construction", "derived PartialEq on Unifiable distinguishes variants"]


def norm_ty(s):
    return re.sub(r"\s+", "", re.sub(r"'\w+\s*,?\s*", "", s))


def walk_hir(e, fn):
    """Call fn(node) on every expression/stmt dict of a HIR tree."""
    if isinstance(e, dict):
        fn(e)
        for v in e.values():
            walk_hir(v, fn)
    elif isinstance(e, list):
        for v in e:
            walk_hir(v, fn)


def dropped_verdicts(body):
    """Semi statements whose expression has the function's return type."""
    ret = norm_ty(body.ret_ty)
    out = []

    def visit(n):
        if n.get("k") == "semi" and isinstance(n.get("e"), dict):
            e = n["e"]
            if e.get("k") in ("Assign", "AssignOp", "Ret", "Break", "Continue"):
                return
            if norm_ty(e.get("ty", "")) == ret:
                out.append(n)
    walk_hir(body.hir, visit)
    return out


def run(ctx):
    prog = ctx.prog
    body, table = utable.build(prog, ctx)
    if body is None:
        ctx.missing("R1", "Unifiable::unify")
        return
    # R1
    for v in [x for x in VARIANTS if x != "Nil"]:   # Nil is the list terminator payload, not a term
        for (a, b) in ((("Anonymous", v)), ((v, "Anonymous"))):
            cell = table[(a, b)]
            s = summarize(cell)
            ok = (s == {"KEEP"})
            ctx.ob("R1", "cell(%s,%s)" % (a, b), ok, ctx.where(body),
                   "outcomes %s; `$_` must yield KEEP (Some(clone of the incoming set)) whatever the other term is"
                   % sorted(s))
            if a == b:
                break
    # R2: in the element-wise cells, every element pair is handed to unify (same table) or skipped:
    # no path of (SComplex,SComplex)/(SLinkedList,SLinkedList) fails on a decision that tests an element
    # against Anonymous.
    for v in ("SComplex", "SLinkedList"):
        cell = table[(v, v)]
        bad = []
        for oc, rel, p in cell.paths:
            if oc != "FAIL":
                continue
            last = rel[-1] if rel else None
            if last is not None:
                c, val = last
                if c[0] == "call" and c[1].endswith("::eq") and any(
                        isinstance(x, tuple) and x[0] == "agg" and x[2] == "Anonymous" for x in c[2]) and val is True:
                    bad.append(p)
        ctx.ob("R2", "elements(%s)" % v, not bad, ctx.where(body),
               "an element pair with `$_` on one side leads to failure" if bad else
               "element pairs are skipped or delegated to unify (covered by R1)")
    # R2b: where `$_` ends an element-wise unification early (tail position), the set returned is the running set —
    # `$_` must not change (here: drop) any binding made for the earlier elements
    from sym import Walker, strip, show, mentions
    sp = ("param", 1, body.locals[1].get("name") or "")
    op_ = ("param", 2, body.locals[2].get("name") or "")
    ssp = ("param", 3, body.locals[3].get("name") or "")
    w = utable.walker(prog, body, max_visits=3)
    for v in ("SComplex", "SLinkedList"):
        bad = None
        n = 0
        for p in w.paths({sp: frozenset([v]), op_: frozenset([v])}):
            if p.end != "return" or not (p.ret[0] == "agg" and p.ret[2] == "Some"):
                continue
            anon = utable.anon_elements(p)
            if not anon:
                continue
            ucalls = [e for e in p.calls() if e["callee"].endswith("Unifiable::unify")]
            skip0 = any(utable.functor_position(x) for x in anon)
            if v == "SComplex" and skip0:
                continue     # `$_` in functor position: outside the universe (make_complex requires an atom; see C06/R4)
            n += 1
            running = ("field", ucalls[-1]["result"], "Some.0") if ucalls else ssp
            pl = strip(dict(p.ret[3]).get("0"))
            if pl != running:
                bad = (pl, running)
        ctx.ob("R2", "anon-keeps-running-set(%s)" % v, bad is None and n > 0, ctx.where(body),
               "after `$_` matched, the arm returns %s instead of the running set %s: bindings made for earlier elements are lost"
               % (show(bad[0]), show(bad[1])[:80]) if bad else "every success after a `$_` match returns the running set (%d paths)" % n)
    # R3
    verdict_fns = [b for b in prog.lib_bodies() if b.kind != "Closure" and
                   re.match(r"^std::option::Option<std::rc::Rc<std::vec::Vec<std::option::Option<std::rc::Rc<unifiable::Unifiable>>>>>$",
                            norm_ty(b.ret_ty))]
    ctx.floor("R3", len(verdict_fns), 14, "functions returning a unification verdict")
    for b in verdict_fns:
        ctx.fn(b)
        d = dropped_verdicts(b)
        ctx.ob("R3", b.npath, not d, ctx.where(b, d[0]["line"] if d else None),
               "a value of the verdict type is constructed and dropped (expression statement): the verdict has no effect"
               if d else "no dropped verdict")
