"""C10 — renaming apart changes only variables, consistently (structural part)."""
from solver import outcome_of, Solver, goal_kinds, real_calls, is_none, some_payload
from callgraph import CallGraph
import statics
from sym import Walker, strip, show, mentions, unclone
import folds
import inline

EXPLANATION = ("Structural necessary conditions of C10: the variable arm of recreate_variables gives a name already in the "
               "map the mapped id and a new name an id from next_id() that is inserted under that name and placed in the "
               "new variable; one map is created per clause use (VarMap::new() inside get_rule / make_query) and the same "
               "map is forwarded to head, body and every sub-term; next_id strictly increments the counter and is the only "
               "source of fresh ids, set_var_id is called only when the head unification failed (the renamed clause is "
               "dropped) with the value saved before the clause was fetched, clear_id only by query constructors; "
               "constants, `$_`, functors, operator kinds and built-in names are rebuilt unchanged. Does not decide shape "
               "preservation of the list arm (it rebuilds through make_linked_list: value-level, see C15).")
RULES = ("R1 LogicVar arm table over map.get(name); R2 one fresh VarMap per get_rule/make_query, same map forwarded "
         "everywhere; R3 id discipline (next_id increments; set_var_id only on the failed-head path with the saved id; "
         "clear_id only in query constructors); R4 non-variable, non-list arms are identity / same-variant rebuilds")
TRUSTED = ["rustc nightly MIR construction", "HashMap get/insert semantics"]

REN = ("recreate_variables", "recreate_vars_goals", "recreate_vars_terms")


def run(ctx):
    prog = ctx.prog
    U = prog.one("unifiable::Unifiable::recreate_variables")
    if U is None:
        ctx.missing("anchors", "Unifiable::recreate_variables")
        return
    ctx.fn(U)
    me = ("param", 1, U.locals[1].get("name") or "")
    mp = ("param", 2, U.locals[2].get("name") or "")
    # private helpers are walked into; the renamer family, the id counter functions and the list builder stay calls
    pol = inline.helpers(prog, keep=REN + ("next_id", "set_var_id", "get_var_id", "clear_id", "make_linked_list"))
    # ---- R1 / R4 on the term renamer --------------------------------------
    w = Walker(U, max_visits=2, inline=pol)
    seen_arms = set()
    for variant in ("Nil", "Anonymous", "Atom", "SFloat", "SInteger", "LogicVar", "SComplex", "SFunction"):
        ps = w.paths({me: frozenset([variant])})
        ctx.stats["paths_walked"] += len(ps)
        if variant == "LogicVar":
            hit = miss = False
            ok, why = True, ""
            for p in ps:
                if p.end != "return":
                    continue
                r = p.ret
                if not (r[0] == "agg" and r[2] == "LogicVar"):
                    ok, why = False, "the variable arm returns %s" % show(r)[:80]
                    continue
                f = dict(r[3])
                idt, nm = unclone(f["id"]), unclone(f["name"])
                if nm != ("field", me, "LogicVar.name"):
                    ok, why = False, "the new variable's name is %s" % show(nm)
                gets = [e for e in p.calls() if e["callee"].endswith("::get") and strip(e["args"][0]) == mp]
                if len(gets) != 1 or strip(gets[0]["args"][1]) != ("field", me, "LogicVar.name"):
                    ok, why = False, "the map is not looked up exactly once by the variable's own name"
                    continue
                res = gets[0]["result"]
                out = [outcome_of(p, res)]
                if out and out[0] == "Some":
                    hit = True
                    if idt != ("field", unclone(res), "Some.0"):
                        ok, why = False, "a name already in the map gets id %s, not the mapped id" % show(idt)
                    if any(e["callee"].endswith("next_id") for e in p.calls()):
                        ok, why = False, "a fresh id is drawn although the name is already mapped"
                elif out and out[0] == "None":
                    miss = True
                    nid = [e for e in p.calls() if e["callee"].endswith("logic_var::next_id")]
                    ins = [e for e in p.calls() if e["callee"].endswith("::insert") and strip(e["args"][0]) == mp]
                    if len(nid) != 1 or idt != unclone(nid[0]["result"]):
                        ok, why = False, "a new name gets id %s, not one fresh next_id()" % show(idt)
                    elif len(ins) != 1 or strip(ins[0]["args"][1]) != ("field", me, "LogicVar.name") or unclone(ins[0]["args"][2]) != unclone(nid[0]["result"]):
                        ok, why = False, "the fresh id is not recorded in the map under the variable's name"
                else:
                    ok, why = False, "the lookup result is not examined"
            ctx.ob("R1", "variable-arm", ok and hit and miss, ctx.where(U), why or
                   "hit -> mapped id; miss -> next_id(), inserted under the name and used")
            continue
        ok, why = True, ""
        n = 0
        pushes_seen, delegated = 0, False
        for p in ps:
            if p.end != "return":
                continue
            n += 1
            r = strip(p.ret)
            if variant in ("Nil", "Anonymous", "Atom", "SFloat", "SInteger"):
                if r != me:
                    ok, why = False, "%s is rebuilt as %s instead of being returned unchanged" % (variant, show(r)[:80])
            elif variant == "SComplex":
                if not (r[0] == "agg" and r[2] == "SComplex"):
                    ok, why = False, "a complex term becomes %s" % show(r)[:80]
                npush = 0
                for e in p.calls():
                    if e["callee"].endswith("::push"):
                        npush += 1
                        v = strip(e["args"][1])
                        if not (v[0] == "call" and v[1] == U.path and strip(v[2][1]) == mp):
                            ok, why = False, "a child %s is pushed that is not the renamed child (same map)" % show(v)[:60]
                pl0 = strip(dict(r[3]).get("0")) if r[0] == "agg" and r[3] else None
                if pl0 is not None and pl0[0] == "call" and pl0[1].split("::")[-1] in REN:
                    # the children are renamed by the family's vector renamer: own children, same map
                    if strip(pl0[2][0]) != ("field", me, "SComplex.0") or strip(pl0[2][1]) != mp:
                        ok, why = False, "the children become %s" % show(pl0)[:80]
                    delegated = True
                elif pl0 is not None and folds.map_collect(prog, pl0, pol) is not None:
                    # `terms.into_iter().map(|t| t.recreate_variables(vars)).collect()` (possibly in a private helper)
                    coll, prs = folds.map_collect(prog, pl0, pol)
                    if strip(coll) != ("field", me, "SComplex.0") or not prs or not all(
                            v[0] == "call" and v[1] == U.path and len(v[2]) == 2 and ie(v[2][0]) and strip(v[2][1]) == mp for v, ie in prs):
                        ok, why = False, "the children become %s" % show(pl0)[:80]
                    delegated = True
                elif pl0 is not None and pl0 == ("field", me, "SComplex.0"):
                    ok, why = False, "the children are kept as they are: variables inside a complex term are not renamed"
                pushes_seen = max(pushes_seen, npush)
                if mentions(r, lambda t: t[0] == "call" and any(t[1].endswith(x) for x in ("::rev", "::skip", "::sort"))):
                    ok, why = False, "children are reordered"
            elif variant == "SFunction":
                if not (r[0] == "agg" and r[2] == "SFunction" and strip(dict(r[3])["name"]) == ("field", me, "SFunction.name")):
                    ok, why = False, "a function term becomes %s" % show(r)[:80]
        seen_arms.add(variant)
        if variant == "SComplex" and ok and not delegated and pushes_seen == 0:
            ok, why = False, "no path renames a child of a complex term (neither a loop pushing renamed children nor the vector renamer)"
        ctx.ob("R4", "term(%s)" % variant, ok and n > 0, ctx.where(U), why or "rebuilt unchanged apart from renamed children")
    # list arm: every node of the list contributes its renamed term: the loop that walks the nodes is left only on a
    # test of the *shape* of what remains (the current node is no longer an SLinkedList / is Nil), never on a payload
    # field such as `count` — stopping one node early hands make_linked_list a last element it may splice
    from cfg import BodyCfg
    # the function that holds the walk: the renamer itself, or a private helper it hands lists to (`recreate_list`)
    S_ = Solver(prog, ctx)
    LF, list_loops = U, []
    for fb in [U] + [x for x in prog.lib_bodies() if x.path in S_.family(U.path) and x.path != U.path]:
        rb = {i for i, t in fb.calls() if (t["callee"].get("resolved") or t["callee"].get("path") or "") == U.path}
        ll = [(h, bl) for h, bl in BodyCfg(fb).loops().items() if bl & rb]
        if ll:
            LF, list_loops = fb, ll
            break
    if LF is U:
        ps = w.paths({me: frozenset(["SLinkedList"])})
        lmp = mp
    else:
        ctx.fn(LF)
        # inside the helper nothing of the family is walked into: its own blocks are what the rule looks at
        ps = Walker(LF, max_visits=2, inline=inline.helpers(prog, keep=REN + ("make_linked_list",) + tuple(
            x.split("::")[-1] for x in S_.family(U.path)))).paths()
        lmp = next((("param", k, LF.locals[k].get("name") or "") for k in range(1, LF.mir["arg_count"] + 1)
                    if "HashMap<std::string::String, usize>" in LF.locals[k]["s"]), None)
    ctx.stats["paths_walked"] += len(ps)
    okl, whyl, nl = True, "", 0
    need_loop = True

    def shape_test(c):
        if c[0] == "variant":
            return True
        if c[0] == "call" and (c[1].endswith("::eq") or c[1].endswith("::ne")):
            # `node == Nil` on the remaining list — not on a node's *element* (`*term == Nil` skips a node)
            others = [strip(a) for a in c[2] if not (isinstance(a, tuple) and a[0] == "agg" and a[2] == "Nil")]
            return len(others) == 1 and len(c[2]) == 2 and not (others[0][0] == "field" and others[0][2].endswith("SLinkedList.term"))
        if c[0] == "unop":
            return shape_test(c[2])
        return False
    for p in ps:
        if p.end != "return":
            continue
        r = strip(p.ret)
        lme = me if LF is U else next((("param", k, LF.locals[k].get("name") or "") for k in range(1, LF.mir["arg_count"] + 1)
                                       if LF.locals[k]["s"].replace(" ", "") == "unifiable::Unifiable"), None)
        if lme is not None and r == lme:
            # renamed in place: the list handed in is returned, and the only thing stored into it is, node after node
            # along `next`, the node's own term renamed under the same map — counts, flags and links are untouched
            nl += 1
            need_loop = True
            depth = 0
            for e in p.events:
                if e["k"] != "write" or e.get("inl"):
                    continue
                pl_ = e["place"]
                node, d = (pl_[1], 0) if pl_[0] == "field" else (None, 0)
                while node is not None and node != lme and node[0] == "field" and node[2] == "SLinkedList.next":
                    node, d = node[1], d + 1
                v = strip(e["value"])
                if not (pl_[0] == "field" and pl_[2] == "SLinkedList.term" and node == lme):
                    okl, whyl = False, "the renamer stores into %s of the list it was given" % show(pl_)[:60]
                elif not (v[0] == "call" and v[1] == U.path and strip(v[2][0]) == pl_ and strip(v[2][1]) == lmp):
                    okl, whyl = False, "the term of a node becomes %s, not that term renamed under the same map" % show(v)[:70]
                elif d != depth:
                    okl, whyl = False, "the walk stores into node %d of the list after node %d: a node is skipped or visited twice" % (d, depth - 1)
                else:
                    depth += 1
            # every node the walk looked at was renamed: one store per trip round the loop
            trips = max((sum(1 for x in p.blocks if x == h) for h, bl in list_loops), default=0)
            if list_loops and depth != trips - 1 and not (w.truncated and depth == trips):
                okl, whyl = False, "%d node(s) visited but %d renamed" % (trips - 1, depth)
        elif r[0] == "agg" and r[2] == "SLinkedList":
            # rebuilt node by node (recursively): own term and own rest renamed under the same map, own count and flag
            nl += 1
            need_loop = False
            f_ = {k_: strip(v_) for k_, v_ in r[3]}
            for fld in ("term", "next"):
                v = f_.get(fld)
                if not (v is not None and v[0] == "call" and v[1] == U.path and strip(v[2][0]) == ("field", me, "SLinkedList." + fld)
                        and strip(v[2][1]) == lmp):
                    okl, whyl = False, "the `%s` of a renamed node is %s" % (fld, show(v)[:70])
            for fld in ("count", "tail_var"):
                if f_.get(fld) != ("field", me, "SLinkedList." + fld):
                    okl, whyl = False, "the `%s` of a renamed node is %s, not the node's own" % (fld, show(f_.get(fld))[:60])
            continue
        elif not (r[0] == "call" and r[1].endswith("make_linked_list")):
            continue
        else:
            nl += 1
            need_loop = True
        for h, bl in list_loops:
            for e in p.events:
                if e["k"] != "branch" or e.get("inl") or e["bb"] not in bl:
                    continue
                # where did the path go after this decision?
                idxs = [k for k, x in enumerate(p.blocks) if x == e["bb"]]
                left = any(k + 1 < len(p.blocks) and p.blocks[k + 1] not in bl for k in idxs)
                if left and not shape_test(e["cond"]):
                    okl, whyl = False, "the walk over the list's nodes is left on `%s` (line %d), not on the shape of the remaining list: a node can be skipped" % (
                        show(e["cond"])[:60], e["line"])
        for e in p.calls():
            if e["callee"].endswith("::push"):
                v = strip(e["args"][1])
                if not (v[0] == "call" and v[1] == U.path and strip(v[2][1]) == lmp):
                    okl, whyl = False, "a list element %s is pushed that is not the renamed element (same map)" % show(v)[:60]
    ctx.ob("R4", "term(SLinkedList)", okl and nl > 0 and (bool(list_loops) or not need_loop), ctx.where(LF), whyl or
           "every node's term is renamed under the same map; the walk ends only where the list ends (%d paths)" % nl)
    # goal / operator / built-in renamers keep the variant and the functor
    for path, kinds in (("goal::Goal::recreate_variables", ("OperatorGoal", "ComplexGoal", "BuiltInGoal")),
                        ("operator::Operator::recreate_variables", ("And", "Or", "Time", "Not"))):
        F = prog.one(path)
        if F is None:
            ctx.missing("R4", path)
            continue
        ctx.fn(F)
        fme = ("param", 1, F.locals[1].get("name") or "")
        fmp = ("param", 2, F.locals[2].get("name") or "")
        fw = Walker(F, max_visits=2, inline=pol)
        for k in kinds:
            ok, why, n = True, "", 0
            for p in fw.paths({fme: frozenset([k])}):
                if p.end != "return":
                    continue
                n += 1
                r = p.ret
                if not (r[0] == "agg" and r[2] == k):
                    ok, why = False, "%s is rebuilt as %s" % (k, show(r)[:60])
                    continue
                inner = strip(dict(r[3])["0"])
                if not (inner[0] == "call" and inner[1].split("::")[-1] in REN and strip(inner[2][0]) == ("field", fme, k + ".0")
                        and strip(inner[2][1]) == fmp):
                    ok, why = False, "the payload of %s is %s, not the renamed payload under the same map" % (k, show(inner)[:80])
            ctx.ob("R4", "%s(%s)" % (path.split("::")[1], k), ok and n > 0, ctx.where(F), why or "same variant, renamed payload, same map")
    BP = prog.one("built_in_predicates::BuiltInPredicate::recreate_variables")
    if BP is None:
        ctx.missing("R4", "BuiltInPredicate::recreate_variables")
    else:
        ctx.fn(BP)
        bme = ("param", 1, BP.locals[1].get("name") or "")
        bmp = ("param", 2, BP.locals[2].get("name") or "")
        ok, why, n = True, "", 0
        for p in Walker(BP, max_visits=2, inline=pol).paths():
            if p.end != "return":
                continue
            n += 1
            r = strip(p.ret)
            if not (r[0] == "call" and r[1].endswith("BuiltInPredicate::new") and strip(r[2][0]) == ("field", bme, "functor")):
                ok, why = False, "the built-in is rebuilt as %s (functor must be kept)" % show(r)[:80]
                continue
            t = r[2][1]
            pl = some_payload(t)
            tv = p.refine.get(("field", bme, "terms"))
            if tv is not None and set(tv) == {"Some"}:
                q = strip(pl) if pl is not None else None
                if q is None or not (q[0] == "call" and q[1].split("::")[-1] in REN and strip(q[2][1]) == bmp and
                                     strip(q[2][0]) == ("field", ("field", bme, "terms"), "Some.0")):
                    ok, why = False, "the arguments become %s" % show(t)[:80]
            elif not is_none(t):
                ok, why = False, "a built-in without arguments gets %s" % show(t)[:60]
        ctx.ob("R4", "BuiltInPredicate", ok and n >= 2, ctx.where(BP), why or "same functor; arguments renamed under the same map")
    # ---- R2 -----------------------------------------------------------------
    RR = prog.one("rule::Rule::recreate_variables")
    if RR is None:
        ctx.missing("R2", "Rule::recreate_variables")
    else:
        ctx.fn(RR)
        rme = ("param", 1, RR.locals[1].get("name") or "")
        rmp = ("param", 2, RR.locals[2].get("name") or "")
        ok, why, n = True, "", 0
        for p in Walker(RR, max_visits=2, inline=pol).paths():
            if p.end != "return":
                continue
            n += 1
            r = strip(p.ret)
            if not (r[0] == "agg" and r[1].endswith("Rule")):
                ok, why = False, "returns %s" % show(r)[:60]
                continue
            f = dict(r[3])
            for fld in ("head", "body"):
                v = strip(f[fld])
                src = ("field", rme, fld)
                good = v[0] == "call" and v[1].split("::")[-1] in REN and strip(v[2][0]) == src and strip(v[2][1]) == rmp
                if not good and v[0] == "agg":
                    # the goal match written out: same variant around the renamed payload; Nil stays Nil
                    dv = [x for c, x, bb in p.decisions if c == ("variant", src)]
                    if dv and dv[0] == v[2]:
                        if not v[3]:
                            good = True
                        else:
                            inner = strip(dict(v[3])["0"])
                            good = inner[0] == "call" and inner[1].split("::")[-1] in REN and \
                                strip(inner[2][0]) == ("field", src, v[2] + ".0") and strip(inner[2][1]) == rmp
                if not good:
                    ok, why = False, "the %s of the renamed rule is %s (must be the renamed %s under the rule's map)" % (fld, show(v)[:70], fld)
        ctx.ob("R2", "rule-shares-map", ok and n > 0, ctx.where(RR), why or "head and body are renamed under one map")
    for path in ("unifiable::recreate_vars_goals", "unifiable::recreate_vars_terms"):
        F = prog.one(path)
        if F is None:
            ctx.missing("R2", path)
            continue
        ctx.fn(F)
        fmp = ("param", 2, F.locals[2].get("name") or "")
        fco = ("param", 1, F.locals[1].get("name") or "")
        ok, why, n = True, "", 0
        em = folds.element_map(prog, F, inline=pol)
        if em["err"]:
            ok, why = False, "the element-wise renaming is not recognised (%s)" % em["err"]
        for v, is_elem, _q, _e in em["pairs"]:
            n += 1
            if not (v[0] == "call" and v[1].split("::")[-1] in REN and len(v[2]) == 2):
                ok, why = False, "an element %s is produced unrenamed" % show(v)[:60]
            elif strip(v[2][1]) != fmp:
                ok, why = False, "an element is renamed under %s, not the caller's map" % show(v[2][1])
            elif not is_elem(v[2][0]):
                ok, why = False, "the renamed value %s is not the element at that position" % show(v[2][0])[:60]
        if ok and em["colls"] != {fco}:
            ok, why = False, "the elements come from %s, not from the vector passed in" % sorted(show(c) for c in em["colls"])
        ctx.ob("R2", path.split("::")[-1], ok and n > 0, ctx.where(F), why or "every element is renamed under the caller's map, in order")
    # every place where a renaming map enters the renamer family: the map must be created for that one use
    from cfg import BodyCfg
    MAPTY = "HashMap<std::string::String, usize>"

    def map_params(b):
        return [k for k in range(1, b.mir["arg_count"] + 1) if MAPTY in b.locals[k]["s"]]

    def single_defs(b):
        d = {}
        for bi, blk in enumerate(b.blocks):
            for st in blk["stmts"]:
                if st["k"] == "assign" and not st["place"]["p"]:
                    d.setdefault(st["place"]["l"], []).append((bi, st["rv"]))
            t = blk["term"]
            if t["k"] == "call" and not t["dest"]["p"]:
                d.setdefault(t["dest"]["l"], []).append((bi, {"k": "call", "t": t}))
        return d

    def map_origin(b, defs, op):
        """('param', k) | ('new', block) | ('other', text) for the map operand of a call."""
        if op["k"] not in ("copy", "move"):
            return ("other", "constant")
        l = op["place"]["l"]
        for _ in range(12):
            if 1 <= l <= b.mir["arg_count"]:
                return ("param", l)
            ds = defs.get(l, [])
            if len(ds) != 1:
                return ("other", "%s assigned %d times" % (b.local_name(l), len(ds)))
            bi, rv = ds[0]
            if rv["k"] in ("ref", "rawptr"):
                l = rv["place"]["l"]
                continue
            if rv["k"] == "use" and rv["op"]["k"] in ("copy", "move"):
                l = rv["op"]["place"]["l"]
                continue
            if rv["k"] == "call":
                nm = rv["t"]["callee"].get("resolved") or rv["t"]["callee"].get("path", "")
                if "HashMap" in nm and nm.endswith("::new"):
                    return ("new", bi)
                return ("other", "result of %s" % nm)
            return ("other", rv["k"])
        return ("other", "too deep")
    family = {b.path for b in prog.lib_bodies() if b.name in REN}
    info = {}
    for b in prog.lib_bodies():
        if not any(MAPTY in l["s"] for l in b.locals):
            continue
        defs = single_defs(b)
        for bi, t in b.calls():
            nm = t["callee"].get("resolved") or t["callee"].get("path") or ""
            tgt = next((x for x in prog.lib_bodies() if x.path == nm), None)
            if tgt is None:
                continue
            mp = map_params(tgt)
            if not mp or len(t["args"]) < mp[0]:
                continue
            info.setdefault(b.path, []).append((b, bi, t, tgt, map_origin(b, defs, t["args"][mp[0] - 1])))
    # a closure that captures the map (`terms.into_iter().map(|t| t.recreate_variables(&mut vars))`): creating it hands
    # the map over just as a call would
    cap_idx = {}
    for c in prog.lib_bodies():
        if c.kind == "Closure":
            for k, cap in enumerate(c.mir.get("captured") or []):
                if MAPTY in (cap.get("place", {}).get("ty") or ""):
                    cap_idx[c.path] = k
    for b in prog.lib_bodies():
        defs = None
        for bi, blk in enumerate(b.blocks):
            for st in blk["stmts"]:
                if st["k"] == "assign" and st["rv"].get("ak") == "closure" and st["rv"]["closure"] in cap_idx:
                    tgt = next((x for x in prog.lib_bodies() if x.path == st["rv"]["closure"]), None)
                    k = cap_idx[st["rv"]["closure"]]
                    if tgt is None or k >= len(st["rv"]["ops"]):
                        continue
                    if defs is None:
                        defs = single_defs(b)
                    info.setdefault(b.path, []).append((b, bi, {"line": st["line"]}, tgt, map_origin(b, defs, st["rv"]["ops"][k])))
    changed = True
    while changed:
        changed = False
        for pth, calls in info.items():
            if pth in family:
                continue
            if any(tgt.path in family and org[0] == "param" for b, bi, t, tgt, org in calls):
                family.add(pth)      # forwards a caller-supplied map: part of the renamer family
                changed = True
    n_uses = 0
    for pth, calls in sorted(info.items()):
        if pth in family:
            continue
        for b, bi, t, tgt, org in calls:
            if tgt.path not in family:
                continue
            n_uses += 1
            ctx.fn(b)
            ok, why = True, "VarMap::new() created for this one use"
            if org[0] != "new":
                ok, why = False, "the map handed to %s is %s, not a map created for this use" % (tgt.name, org[1] if org[0] == "other" else "a parameter")
            else:
                cfg_ = BodyCfg(b)
                # a loop around the renaming of one *whole clause* (callee returns a Rule) must create the map inside:
                # each iteration is a different clause use.  (Loops over the terms of one query/clause share one map.)
                whole_clause = tgt.ret_ty == "rule::Rule"
                for head, blocks in cfg_.loops().items():
                    if whole_clause and bi in blocks and org[1] not in blocks:
                        ok, why = False, ("the map is created outside the loop in which %s is called: clauses fetched in "
                                          "different iterations share name -> id mappings" % tgt.name)
            inst = "fresh-map(%s)" % b.name
            k = sum(1 for o in ctx.obs if o["rule"] == "R2" and o["instance"].startswith(inst))
            ctx.ob("R2", inst if k == 0 else "%s#%d" % (inst, k), ok, ctx.where(b, t["line"]), why)
    ctx.floor("R2", n_uses, 2, "places where a fresh renaming map enters the renamer family")
    # no VarMap in statics / fields
    bad = [s for s in prog.lib["statics"] if "HashMap<std::string::String, usize>" in s["ty"]]
    ctx.ob("R2", "no-shared-map", not bad, "", "a VarMap is kept in a static: %s" % bad if bad else "no static holds a VarMap")
    # ---- R3 -----------------------------------------------------------------
    NI = prog.one("logic_var::next_id")
    if NI is None:
        ctx.missing("R3", "next_id")
    else:
        ctx.fn(NI)
        ok, why, n = True, "", 0
        for p in Walker(NI, max_visits=2).paths():
            if p.end != "return":
                continue
            n += 1
            ws = [e for e in p.events if e["k"] == "write" and e["place"][0] == "static"]
            if len(ws) != 1:
                ok, why = False, "next_id writes the counter %d times" % len(ws)
                continue
            v = strip(ws[0]["value"])
            inc = v[0] == "binop" and v[1] == "Add" and strip(v[2]) == ws[0]["place"] and v[3][0] == "const" and v[3][3] == 1
            if not inc:
                ok, why = False, "next_id stores %s" % show(v)
            if strip(p.ret) != v and strip(p.ret) != ws[0]["place"]:
                ok, why = False, "next_id returns %s, not the incremented counter" % show(p.ret)
        ctx.ob("R3", "next_id-increments", ok and n > 0, ctx.where(NI), why or "counter += 1; returns the new value")
    S = Solver(prog, ctx)
    if S.entry is None:
        ctx.missing("R3", "solver entry")
        return
    E = S.entry
    cg = CallGraph(prog, crates=["suiron-lib"])
    # who calls set_var_id / clear_id
    callers = {"set_var_id": set(), "clear_id": set()}
    for p, b in cg.nodes.items():
        for bb, t in b.calls():
            nm = t["callee"].get("resolved") or t["callee"].get("path") or ""
            for k in callers:
                if nm.endswith("logic_var::" + k):
                    callers[k].add(p)
    # besides the clause loop, only the designated reset (clear_id, and the query constructors that may call it) may go
    # through the setter, and then only with the constant 0
    resetters = {"logic_var::clear_id", "time_out::start_query", "s_complex::make_query"}
    odd = []
    for cp in sorted(callers["set_var_id"] - S.entry_family):
        b = cg.nodes[cp]
        for bb, t in b.calls():
            nm = t["callee"].get("resolved") or t["callee"].get("path") or ""
            if nm.endswith("logic_var::set_var_id"):
                a = t["args"][0] if t["args"] else {}
                if cp not in resetters or not (a.get("k") == "const" and a.get("int") == 0):
                    odd.append(cp)
    ctx.ob("R3", "set_var_id-callers", bool(callers["set_var_id"] & S.entry_family) and not odd, ctx.where(E),
           "set_var_id is called from %s (only the clause loop may restore the counter; a reset to the constant 0 by "
           "clear_id / the query constructors is the designated reset)" % sorted(callers["set_var_id"]))
    okc = callers["clear_id"] <= {"time_out::start_query", "s_complex::make_query"} and callers["clear_id"]
    ctx.ob("R3", "clear_id-callers", bool(okc), "", "clear_id is called from %s (only query construction / start_query)" % sorted(callers["clear_id"]))
    ok, why, n = True, "", 0
    for p in S.paths(E, 3):
        ev = p.events
        for i, e in enumerate(ev):
            if e["k"] == "call" and e["callee"].endswith("logic_var::set_var_id"):
                n += 1
                # most recent head unification failed
                uni = [x for x in ev[:i] if x["k"] == "call" and x["callee"].endswith("Unifiable::unify")]
                if not uni or outcome_of(p, uni[-1]["result"]) != "None":
                    ok, why = False, "set_var_id is called although the head unification did not fail: ids of a live clause would be reused"
                    continue
                # value = get_var_id() taken before the get_rule of this iteration
                val = strip(e["args"][0])
                gr = [j for j, x in enumerate(ev[:i]) if x["k"] == "call" and S.is_fetch(x["callee"])]
                if not (val[0] == "call" and val[1].endswith("get_var_id") and gr):
                    ok, why = False, "set_var_id restores %s" % show(val)
                    continue
                gv = [j for j, x in enumerate(ev[:i]) if x["k"] == "call" and x.get("result") == val]
                if not gv or not (gv[-1] < gr[-1]) or (len(gr) > 1 and gv[-1] < gr[-2]):
                    ok, why = False, "the restored id was not read just before this clause was fetched"
    ctx.ob("R3", "restore-only-after-failed-head", ok and n > 0, ctx.where(E), why or
           "set_var_id(get_var_id() taken before the fetch) only on the failed-head path (%d events)" % n)
    # LogicVar construction in solver-reachable code (the renamer and the answer builder, with what they are split into)
    allowed_makers = set(S.family(U.path))
    RV = prog.one("unifiable::Unifiable::replace_variables")
    if RV is not None:
        allowed_makers |= S.family(RV.path)
    reach = cg.reach([E.path])
    bad = None
    n = 0
    for pth in reach:
        b = cg.nodes[pth]
        for i, blk in enumerate(b.blocks):
            for s in blk["stmts"]:
                if s["k"] == "assign" and s["rv"]["k"] == "aggregate" and s["rv"].get("variant") == "LogicVar" and \
                        s["rv"].get("adt", "").endswith("Unifiable"):
                    n += 1
                    if b.path not in allowed_makers and "Clone" not in b.path:
                        bad = (b, s)
    ctx.ob("R3", "variables-made-only-by-renaming", bad is None and n > 0, ctx.where(bad[0], bad[1]["line"]) if bad else "",
           "a logic variable is constructed in solver-reachable code outside recreate_variables / replace_variables / Clone" if bad
           else "%d LogicVar constructions in solver-reachable code, all in the renamer, the answer builder or Clone" % n)
