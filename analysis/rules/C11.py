"""C11 — answers do not depend on how program variables are named (structural part)."""
from solver import Solver
from callgraph import CallGraph
import statics
import importlib

import utable

EXPLANATION = ("Decides the two mechanisms that make variable names irrelevant to the search: (1) C10's renaming rules (a "
               "name is meaningful only inside one fresh per-clause map; re-run here), and (2) names are not identities in "
               "the solver: in every function reachable from the solver entry points, a value read from the `name` field "
               "of a variable flows (intra- and inter-procedurally, by a def-use taint over MIR locals) only into the "
               "VarMap key, into the name field of a new variable, into equality of whole terms, or into formatting; and "
               "every index into a substitution set is derived from an `id` field (or an iteration counter), never from a "
               "name. Does not decide the metamorphic equality of answers itself.")
RULES = ("R1 name-taint sinks in solver-reachable code ⊆ {VarMap get/insert, LogicVar{name}, String equality, formatting, "
         "clone}; R2 substitution-set index operands derive from LogicVar.id / enumerate counters; R3 = C10.R1/R2 (per-clause map)")
TRUSTED = ["rustc nightly MIR construction", "flow-insensitive def-use over MIR locals (over-approximates flows)"]

NAME_OF = "unifiable::Unifiable::LogicVar"
SS_VEC = "std::vec::Vec<std::option::Option<std::rc::Rc<unifiable::Unifiable>>>"
PROPAGATE = ("::clone", "::to_string", "::to_owned", "::deref", "::as_str", "::borrow", "::as_ref", "::into", "::from",
             "::as_bytes", "::chars", "::len", "::count", "::parse", "::bytes", "::hash")
ALLOWED_SINK = ("HashMap::<K, V, S, A>::get", "HashMap::<K, V, S, A>::insert", "HashMap::<K, V, S, A>::contains_key",
                "HashMap::<K, V, S>::get", "HashMap::<K, V, S>::insert", "HashMap::<K, V, S>::contains_key",
                "::eq", "::ne", "::fmt", "Arguments::<'a>::new", "Argument::<'_>::new_display", "Argument::<'_>::new_debug",
                "fmt::format", "::write_str", "::push_str", "::write_fmt", "::drop", "::hash", "mem::drop",
                "std::ops::Add::add", "std::ops::AddAssign::add_assign", "::len")


def ops_of(rv):
    return statics._ops_of_rv(rv)


def reads_name(place):
    return any(isinstance(e, dict) and e.get("field") == "name" and e.get("of") == NAME_OF for e in place["p"])


def reads_id(place):
    return any(isinstance(e, dict) and e.get("field") == "id" and e.get("of") == NAME_OF for e in place["p"])


def taint(body, src_pred, returns_tainted):
    """Locals holding (a reference to / a copy of) a value matching src_pred."""
    t = set()
    changed = True
    while changed:
        changed = False
        for blk in body.blocks:
            for s in blk["stmts"]:
                if s["k"] != "assign":
                    continue
                d = s["place"]["l"]
                if s["place"]["p"]:
                    continue
                rv = s["rv"]
                hit = False
                places = []
                if rv["k"] in ("ref", "rawptr", "discriminant"):
                    places.append(rv["place"])
                for o in ops_of(rv):
                    if o["k"] in ("copy", "move"):
                        places.append(o["place"])
                for p in places:
                    if src_pred(p) or p["l"] in t:
                        hit = True
                if hit and d not in t:
                    t.add(d)
                    changed = True
            tm = blk["term"]
            if tm["k"] == "call" and not tm["dest"]["p"]:
                c = tm["callee"]
                nm = (c.get("resolved") or c.get("path") or "")
                argt = any(a["k"] in ("copy", "move") and (a["place"]["l"] in t or src_pred(a["place"])) for a in tm["args"])
                if (argt and any(nm.endswith(x) for x in PROPAGATE)) or nm in returns_tainted and argt:
                    if tm["dest"]["l"] not in t:
                        t.add(tm["dest"]["l"])
                        changed = True
    return t


def run(ctx):
    prog = ctx.prog
    S = Solver(prog, ctx)
    if S.entry is None:
        ctx.missing("anchors", "solver entry")
        return
    cg = CallGraph(prog, crates=["suiron-lib"])
    roots = [S.entry.path]
    for nm in ("solutions::solve", "solutions::solve_all"):
        b = prog.one(nm)
        if b is not None:
            roots.append(b.path)
    reach = cg.reach(roots)
    ctx.extra["solver_reachable_functions"] = len(reach)
    # functions returning a name-tainted value
    returns_tainted = set()
    for _ in range(4):
        for p in sorted(reach):
            b = cg.nodes[p]
            t = taint(b, reads_name, returns_tainted)
            if 0 in t and p not in returns_tainted:
                returns_tainted.add(p)
    n_sources = 0
    viol = []
    for p in sorted(reach):
        b = cg.nodes[p]
        t = taint(b, reads_name, returns_tainted)
        if not t:
            continue
        ctx.fn(b)
        for i, blk in enumerate(b.blocks):
            if blk["cleanup"]:
                continue
            for s in blk["stmts"]:
                if s["k"] != "assign":
                    continue
                rv = s["rv"]
                for o in ops_of(rv):
                    if o["k"] in ("copy", "move") and reads_name(o["place"]):
                        n_sources += 1
                if rv["k"] == "aggregate":
                    for f, o in zip(rv.get("fields") or [str(k) for k in range(len(rv["ops"]))], rv["ops"]):
                        if o["k"] in ("copy", "move") and (o["place"]["l"] in t or reads_name(o["place"])):
                            okagg = (rv.get("variant") == "LogicVar" and f == "name") or rv.get("ak") in ("tuple", "array", "closure")
                            if not okagg:
                                viol.append((b, s["line"], "a variable name is stored into %s.%s" % (rv.get("variant") or rv.get("ak"), f)))
                if rv["k"] == "binop" and rv["op"] not in ("Eq", "Ne"):
                    for o in (rv["l"], rv["r"]):
                        if o["k"] in ("copy", "move") and o["place"]["l"] in t and not o["place"]["p"]:
                            pass
                if rv["k"] in ("ref",) and reads_name(rv["place"]):
                    n_sources += 1
            tm = blk["term"]
            if tm["k"] == "call":
                c = tm["callee"]
                nm = (c.get("resolved") or c.get("path") or "<indirect>")
                targs = [a for a in tm["args"] if a["k"] in ("copy", "move") and (a["place"]["l"] in t or reads_name(a["place"]))]
                if not targs:
                    continue
                if any(nm.endswith(x) for x in PROPAGATE) or any(x in nm for x in ALLOWED_SINK):
                    continue
                if nm in cg.nodes:
                    # passing a name into a crate function: allowed only if that function is itself analysed (it is, when reachable)
                    if nm in reach:
                        continue
                viol.append((b, tm["line"], "a variable name flows into %s" % nm))
    ctx.floor("R1", n_sources, 3, "reads of LogicVar.name in solver-reachable code")
    ctx.ob("R1", "name-sinks", not viol, ctx.where(viol[0][0], viol[0][1]) if viol else "",
           "; ".join(sorted({v[2] for v in viol}))[:300] if viol else
           "%d reads of a variable's name; all flow into the rename map, a new variable, term equality or formatting" % n_sources)
    # ---- R2 -----------------------------------------------------------------
    n_idx = 0
    bad = None
    for p in sorted(reach):
        b = cg.nodes[p]
        idt = None
        nt = None
        for i, tm in b.calls():
            c = tm["callee"]
            nm = (c.get("resolved") or c.get("path") or "")
            if not utable.is_ss_lookup(tm):
                continue
            if len(tm["args"]) < 2:
                continue
            a = tm["args"][1]
            if a["k"] not in ("copy", "move"):
                continue
            n_idx += 1
            if idt is None:
                idt = taint(b, reads_id, set())
                nt = taint(b, reads_name, returns_tainted)
            l = a["place"]["l"]
            if l in nt:
                bad = (b, tm["line"], "a substitution set is indexed by a value derived from a variable's name")
            elif l not in idt and not reads_id(a["place"]):
                # accept iteration counters (a field of an iterator item) and parameters, through copies
                src = b.locals[l].get("name") or ""

                def origin_ok(x, depth=0):
                    if depth > 8:
                        return False
                    if x <= b.mir["arg_count"] and x >= 1:
                        return True
                    if x in idt:
                        return True
                    defs = []
                    for blk in b.blocks:
                        for s in blk["stmts"]:
                            if s["k"] == "assign" and not s["place"]["p"] and s["place"]["l"] == x:
                                defs.append(s["rv"])
                    if not defs:
                        return False
                    for rv in defs:
                        if rv["k"] == "use" and rv["op"]["k"] in ("copy", "move"):
                            pl = rv["op"]["place"]
                            if pl["p"]:
                                continue        # a field of a tuple / iterator item
                            if not origin_ok(pl["l"], depth + 1):
                                return False
                        else:
                            return False
                    return True
                derived_ok = origin_ok(l)
                if not derived_ok:
                    bad = (b, tm["line"], "a substitution set is indexed by `%s`, which is not derived from a variable id" % (src or "_%d" % l))
    # (5 such sites on the reference tree; a tree that funnels its lookups through one helper has fewer, so the floor only
    #  guards against the rule matching nothing at all)
    ctx.floor("R2", n_idx, 2, "index operations on substitution sets in solver-reachable code")
    ctx.ob("R2", "bindings-indexed-by-id", bad is None, ctx.where(bad[0], bad[1]) if bad else "",
           bad[2] if bad else "%d index operations on substitution sets, all by a variable id / iteration counter" % n_idx)
    # ---- R3: the per-clause map rules of C10 ---------------------------------
    c10 = importlib.import_module("rules.C10")
    before = len(ctx.obs)
    c10.run(ctx)
    keep = []
    for o in ctx.obs[before:]:
        if o["rule"] in ("R1", "R2"):
            o["rule"] = "R3"
            o["key"] = "C11/R3/C10." + o["instance"]
            o["instance"] = "C10." + o["instance"]
            keep.append(o)
    del ctx.obs[before:]
    ctx.obs.extend(keep)
