"""C12 — arithmetic functions compute the documented values (structural part)."""
from solver import Solver, some_payload
from sym import Walker, strip, show, mentions
import folds

EXPLANATION = ("Structural necessary conditions of C12: for each arithmetic evaluator reached from unify_sfunction, the "
               "operation, operand order and initial accumulator of its integer and float folds (read from the MIR of the "
               "fold closures) are the documented ones (add: acc+x from 0; multiply: acc*x from 1; subtract / divide: "
               "acc-x / acc/x starting from the first argument, removed at index 0); the integer fold is over i64 and "
               "yields SInteger, the float fold over f64 yields SFloat and is taken exactly when get_numbers saw a float; "
               "get_floats converts integers with `as f64`; the chain `+ - * /` -> Infix -> function name -> evaluator is "
               "followed link by link; the evaluated value is unified with the other operand under the incoming set. "
               "Decides the shape of the folds and the registry, not numeric results or overflow.")
RULES = ("R1 (op, operand order, initial accumulator, element type, result kind) per evaluator and branch; float branch iff "
         "has_float, flag set only by SFloat, get_floats casts ints; R2 symbol -> Infix -> name -> evaluator with that "
         "operation; parse_term's function-name prefixes are names unify_sfunction knows; R3 unify_sfunction cell = "
         "evaluate_X(terms, ss).unify(other, ss)")
TRUSTED = ["rustc nightly MIR construction", "Iterator::fold applies the closure left to right"]

WANT = {"add": ("Add", "zero"), "multiply": ("Mul", "one"), "subtract": ("Sub", "first"), "divide": ("Div", "first")}
SYMBOL = {"+": "add", "-": "subtract", "*": "multiply", "/": "divide"}


def run(ctx):
    prog = ctx.prog
    US = prog.one("built_in_functions::unify_sfunction")
    if US is None:
        ctx.missing("anchors", "unify_sfunction")
        return
    ctx.fn(US)
    # name -> evaluator (and R3), robust to the dispatch living in a helper
    import funcs
    fa = funcs.analyse(prog, ctx)
    name2eval = dict(fa["name2eval"])
    ctx.fn(fa["dispatcher"])
    seen = {}
    for label, ok, why in fa["returns"]:
        k = seen.get(label, 0)
        seen[label] = k + 1
        ctx.ob("R3", "cell(%s)%s" % (label, "" if k == 0 else "#%d" % k), ok, ctx.where(US), why)
    for nm in WANT:
        if nm not in name2eval:
            ctx.missing("R2", "dispatch of function name `%s`" % nm)
    # ---- R1 ----------------------------------------------------------------
    # private helpers of the evaluators (a shared fold wrapper, ..) are walked into; the number collectors stay calls
    import inline as _inl
    pol = _inl.helpers(prog, keep=("get_numbers", "get_floats", "get_integers"))
    n_branches = 0
    for nm, evp in sorted(name2eval.items()):
        if nm not in WANT:
            continue
        F = next((b for b in prog.lib_bodies() if b.path == evp), None)
        if F is None:
            ctx.missing("R1", evp)
            continue
        ctx.fn(F)
        want_op, want_init = WANT[nm]
        ps = Walker(F, max_visits=2, inline=pol).paths()
        ctx.stats["paths_walked"] += len(ps)
        for p in ps:
            if p.end != "return":
                continue
            r = p.ret
            flag = None
            for c, v, bb in p.decisions:
                if c[0] == "field" and c[2] == "1" and c[1][0] == "call" and c[1][1].endswith("get_numbers"):
                    flag = v
            if flag is None:
                ctx.ob("R1", "%s/branch?" % nm, False, ctx.where(F), "a returning path does not test get_numbers' float flag")
                continue
            branch = "float" if flag else "int"
            n_branches += 1
            kind = r[2] if r[0] == "agg" else "?"
            val = strip(dict(r[3]).get("0")) if r[0] == "agg" else r
            why = []
            if kind != ("SFloat" if flag else "SInteger"):
                why.append("result kind %s" % kind)
            red = val[1].split("::")[-1].split("<")[0] if val[0] == "call" else ""
            if val[0] == "call" and (".sum" in val[1] or red in ("sum", "product") or "::sum::" in val[1] or "::product::" in val[1]):
                # Iterator::sum / product: the documented fold for add (from 0) and multiply (from 1)
                isum = "sum" in val[1].split("Iterator>::")[-1] if "Iterator>::" in val[1] else ("sum" in red)
                got = ("Add", "zero") if isum else ("Mul", "one")
                if got != (want_op, want_init):
                    why.append("the reduction is %s, documented %s from %s" % ("sum" if isum else "product", want_op, want_init))
                src = strip(val[2][0]) if val[2] else None
                getter = "get_floats" if flag else "get_integers"
                if src is None or not mentions(src, lambda t: t[0] == "call" and t[1].endswith(getter)):
                    why.append("%s branch does not reduce %s(..)" % (branch, getter))
            elif folds.shape(prog, val)[0] is None:
                why.append(folds.shape(prog, val)[1])
            else:
                sh = folds.shape(prog, val)[0]
                for h in sh["via"]:
                    ctx.stats["functions_analysed"].add(h)
                it, init, clo = sh["src"], sh["init"], sh["clo"]
                src = strip(it)
                # iterator over get_floats / get_integers of the numbers
                getter = "get_floats" if flag else "get_integers"
                if not mentions(src, lambda t: t[0] == "call" and t[1].endswith(getter)):
                    why.append("%s branch does not fold over %s(..)" % (branch, getter))
                if mentions(src, lambda t: t[0] == "call" and any(t[1].endswith(x) for x in ("::rev", "::skip", "::step_by", "::take"))):
                    why.append("the iterator is reordered or truncated")
                # initial accumulator
                if want_init == "zero":
                    okinit = init[0] == "const" and (init[3] == 0 or init[2].startswith("0"))
                elif want_init == "one":
                    okinit = init[0] == "const" and (init[3] == 1 or init[2].startswith("1"))
                else:
                    okinit = init[0] == "call" and init[1].endswith("::remove") and init[2][1][0] == "const" and init[2][1][3] == 0 and \
                        mentions(init[2][0], lambda t: t[0] == "call" and t[1].endswith(getter))
                if not okinit:
                    why.append("initial accumulator is %s" % show(init)[:60])
                cl = strip(clo)
                if cl[0] != "closure":
                    why.append("fold function is %s" % show(cl)[:60])
                else:
                    ops = folds.closure_op(prog, cl, inline=pol)
                    if not ops or len(ops) != 1:
                        why.append("fold closure not understood: %s" % ops)
                    else:
                        op, ety, okorder = list(ops)[0]
                        if op != want_op:
                            why.append("operation is %s, documented %s" % (op, want_op))
                        if not okorder:
                            why.append("operands are not (accumulator, element)")
                        if ety != ("f64" if flag else "i64"):
                            why.append("accumulator type %s" % ety)
            ctx.ob("R1", "%s/%s" % (nm, branch), not why, ctx.where(F), "; ".join(why) or
                   "%s over %s from %s -> %s" % (want_op, "f64" if flag else "i64", want_init, kind))
    ctx.floor("R1", n_branches, 8, "evaluator branches")
    # helpers
    GN = prog.one("built_in_arithmetic::get_numbers")
    GF = prog.one("built_in_arithmetic::get_floats")
    GI = prog.one("built_in_arithmetic::get_integers")
    if None in (GN, GF, GI):
        ctx.missing("R1", "get_numbers / get_floats / get_integers")
    else:
        for b in (GN, GF, GI):
            ctx.fn(b)
        ok, why, n = True, "", 0
        for p in Walker(GN, max_visits=2).paths():
            if p.end != "return" or p.ret[0] != "tuple":
                continue
            n += 1
            kinds = [v for c, v, bb in p.decisions if c[0] == "variant" and v in ("SFloat", "SInteger")]
            flag = p.ret[1][1]
            isf = flag[0] == "const" and flag[3] == 1
            if isf != ("SFloat" in kinds):
                ok, why = False, "has_float = %s on a path that saw %s" % (show(flag), kinds)
            # pushes keep the kind and the payload
            for e in p.calls():
                if e["callee"].endswith("::push"):
                    v = strip(e["args"][1])
                    if not (v[0] == "agg" and v[2] in ("SFloat", "SInteger") and strip(dict(v[3])["0"])[0] == "field" and
                            strip(dict(v[3])["0"])[2] == v[2] + ".0"):
                        ok, why = False, "get_numbers pushes %s" % show(v)[:80]
        ctx.ob("R1", "float-flag", ok and n > 0, ctx.where(GN), why or "has_float is true exactly when an SFloat argument was seen (%d paths)" % n)
        outs, err = folds.element_outputs(prog, GF)
        ok, why = err is None, err or ""
        for v in outs:
            good = (v[0] == "field" and v[2] == "SFloat.0") or \
                (v[0] == "cast" and v[2] == "f64" and v[3] == "IntToFloat" and strip(v[1])[0] == "field" and strip(v[1])[2] == "SInteger.0")
            if not good:
                ok, why = False, "get_floats yields %s" % show(v)[:80]
        ctx.ob("R1", "ints-as-f64", ok and len(outs) >= 2, ctx.where(GF), why or "floats pass through, integers are converted with `as f64`")
        outs, err = folds.element_outputs(prog, GI)
        ok, why = err is None, err or ""
        for v in outs:
            if not (v[0] == "field" and v[2] == "SInteger.0"):
                ok, why = False, "get_integers yields %s" % show(v)[:80]
        ctx.ob("R1", "ints-pass-through", ok and len(outs) >= 1, ctx.where(GI), why or "integers pass through unchanged")
    # ---- R2 ------------------------------------------------------------------
    CA = prog.one("infix::check_arithmetic_infix")
    PT = prog.one("parse_terms::parse_term")
    MT = prog.one("parse_terms::make_term")
    if None in (CA, PT, MT):
        ctx.missing("R2", "check_arithmetic_infix / parse_term / make_term")
        return
    for b in (CA, PT, MT):
        ctx.fn(b)
    import infixscan
    import inline
    try:
        sym2variant = infixscan.symbols(CA, inline=inline.helpers(prog), ctx=ctx)
    except Exception as e:
        sym2variant = {}
        ctx.ob("R2", "check_arithmetic_infix", False, ctx.where(CA), "cannot enumerate: %s" % e)
    variant2name = {}
    order_ok = {}
    try:
        pps = Walker(PT, max_visits=2, max_paths=400000, inline=inline.helpers(prog, keep=("get_left_and_right", "check_arithmetic_infix"))).paths()
    except Exception as e:
        pps = []
        ctx.ob("R2", "parse_term", False, ctx.where(PT), "cannot enumerate: %s" % e)
    ctx.stats["paths_walked"] += len(pps)
    for p in pps:
        if p.end != "return" or p.ret[0] != "agg" or p.ret[2] != "Ok":
            continue
        g = strip(dict(p.ret[3]).get("0"))
        if g[0] == "agg" and g[2] == "SFunction":
            nm = strip(dict(g[3]).get("name"))
            lit = nm if nm[0] == "const" else None
            vs = [v for c, v, bb in p.decisions if c[0] == "variant" and v in ("Plus", "Minus", "Multiply", "Divide")]
            if lit is not None and vs:
                variant2name.setdefault(vs[-1], set()).add(lit[2].strip('"'))
                a = strip(dict(g[3]).get("terms"))
                good = a[0] == "vec" and len(a[1]) == 2
                if good:
                    l_, r_ = strip(a[1][0]), strip(a[1][1])
                    good = l_[0] == "field" and r_[0] == "field" and l_[2] == "0" and r_[2] == "1" and l_[1] == r_[1] and \
                        mentions(l_, lambda x: x[0] == "call" and x[1].endswith("get_left_and_right"))
                order_ok[lit[2].strip('"')] = order_ok.get(lit[2].strip('"'), True) and good
    for sym, nm in sorted(SYMBOL.items()):
        vs = sym2variant.get(sym, set())
        names = set()
        for v in vs:
            names |= variant2name.get(v, set())
        ok = len(vs) == 1 and names == {nm} and nm in name2eval
        ctx.ob("R2", "chain(%s)" % sym, ok, ctx.where(PT), "`%s` -> Infix %s -> function %s -> %s" % (
            sym, sorted(vs), sorted(names), name2eval.get(nm, "?").split("::")[-1]))
    for nm in sorted(WANT):
        ctx.ob("R2", "operands(%s)" % nm, order_ok.get(nm) is True, ctx.where(PT),
               "the infix form builds %s(left operand, right operand)" % nm if order_ok.get(nm) else
               "the operands of the infix form are not passed in (left, right) order")
    # make_term's function prefixes
    infixscan.left_right_split(ctx, "R2")
    # names make_term treats as built-in functions: string literals `name(` it (or a constant table it reads) holds
    prefixes = {x.rstrip("(") for x in prog.str_literals(MT) if x.endswith("(") and len(x) > 1 and x[:-1].isidentifier()}
    ctx.ob("R2", "function-names-agree", bool(prefixes) and prefixes <= set(name2eval), ctx.where(MT),
           "make_term recognises %s as functions; unify_sfunction evaluates %s" % (sorted(prefixes), sorted(name2eval)))
