"""C13 — a function term is evaluated whichever side of `=` it is on."""
import utable
from utable import summarize
from sym import Walker, strip, show

EXPLANATION = ("Structural necessary conditions of C13 decided over all CFG paths of Unifiable::unify and "
               "unify_sfunction: in the unification dispatch table the row `SFunction` evaluates (EVAL) and the column "
               "`SFunction` forwards to the function operand (SWAP) or evaluates it, for every other operand kind; "
               "unify_sfunction unifies the evaluated value with the other operand under the incoming set.")
RULES = ("R1 cell(SFunction,x) = {EVAL} for x != Anonymous; R2 cell(x,SFunction) ⊆ {SWAP,EVAL} for "
         "x in Atom,SFloat,SInteger,LogicVar,SComplex,SLinkedList; R3 function×function evaluates both (R1 ∧ R2); "
         "R4 every unify_sfunction cell is evaluate_X(terms, ss).unify(other, ss)")
TRUSTED = ["rustc nightly MIR construction"]
OTHERS = ["Atom", "SFloat", "SInteger", "LogicVar", "SComplex", "SLinkedList"]


def run(ctx):
    prog = ctx.prog
    body, table = utable.build(prog, ctx)
    if body is None:
        ctx.missing("R1", "Unifiable::unify")
        return
    r1 = True
    for x in OTHERS + ["SFunction"]:
        c = table[("SFunction", x)]
        s = summarize(c)
        r1 &= ctx.ob("R1", "cell(SFunction,%s)" % x, s == {"EVAL"}, ctx.where(body),
                     "outcomes %s; a function term on the left must be evaluated" % sorted(s))
    r2 = True
    for x in OTHERS:
        c = table[(x, "SFunction")]
        s = summarize(c)
        ok = bool(s) and s <= {"SWAP", "EVAL"}
        r2 &= ctx.ob("R2", "cell(%s,SFunction)" % x, ok, ctx.where(body),
                     "outcomes %s; with a function term on the right the pair must be forwarded to the function "
                     "operand (SWAP) or evaluated, never decided without evaluation" % sorted(s))
    ctx.ob("R3", "cell(SFunction,SFunction)", r1 and r2, ctx.where(body),
           "the first function is evaluated (R1) and its value meets the second through cell(value,SFunction) (R2)")
    # R4: every return of unify_sfunction is <value of this function term>.unify(other, ss)
    import funcs
    fa = funcs.analyse(prog, ctx)
    if fa is None:
        ctx.missing("R4", "unify_sfunction")
        return
    ctx.fn(fa["us"])
    ctx.fn(fa["dispatcher"])
    n = 0
    seen = {}
    for label, ok, why in fa["returns"]:
        n += 1
        k = seen.get(label, 0)
        seen[label] = k + 1
        ctx.ob("R4", label if k == 0 else "%s#%d" % (label, k), ok, ctx.where(fa["us"]), why)
    ctx.floor("R4", n, 1, "value-returning paths of unify_sfunction")
    ctx.floor("R4/names", len(fa["name2eval"]), 5, "function names dispatched to evaluators")
