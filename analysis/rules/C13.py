"""C13 — a function term is evaluated whichever side of `=` it is on."""
import utable
from utable import summarize
from sym import Walker, strip, show

EXPLANATION = ("Structural necessary conditions of C13 decided over all CFG paths of Unifiable::unify and "
               "unify_sfunction: in the unification dispatch table the row `SFunction` evaluates (EVAL) and the column "
               "`SFunction` forwards to the function operand (SWAP) or evaluates it, for every other operand kind; "
               "unify_sfunction unifies the evaluated value with the other operand under the incoming set.")
RULES = ("R1 cell(SFunction,x) = {EVAL} for x != Anonymous; R2 cell(x,SFunction) ⊆ {SWAP,EVAL} for "
         "x in Atom,SFloat,SInteger,LogicVar,SComplex,SLinkedList; R3 function×function evaluates both (R1 ∧ R2); "
         "R4 every unify_sfunction cell is evaluate_X(terms, ss).unify(other, ss)")
TRUSTED = ["rustc nightly MIR construction"]
OTHERS = ["Atom", "SFloat", "SInteger", "LogicVar", "SComplex", "SLinkedList"]


def run(ctx):
    prog = ctx.prog
    body, table = utable.build(prog, ctx)
    if body is None:
        ctx.missing("R1", "Unifiable::unify")
        return
    r1 = True
    for x in OTHERS + ["SFunction"]:
        c = table[("SFunction", x)]
        s = summarize(c)
        r1 &= ctx.ob("R1", "cell(SFunction,%s)" % x, s == {"EVAL"}, ctx.where(body),
                     "outcomes %s; a function term on the left must be evaluated" % sorted(s))
    r2 = True
    for x in OTHERS:
        c = table[(x, "SFunction")]
        s = summarize(c)
        ok = bool(s) and s <= {"SWAP", "EVAL"}
        r2 &= ctx.ob("R2", "cell(%s,SFunction)" % x, ok, ctx.where(body),
                     "outcomes %s; with a function term on the right the pair must be forwarded to the function "
                     "operand (SWAP) or evaluated, never decided without evaluation" % sorted(s))
    ctx.ob("R3", "cell(SFunction,SFunction)", r1 and r2, ctx.where(body),
           "the first function is evaluated (R1) and its value meets the second through cell(value,SFunction) (R2)")
    # R5: the arguments of two complex terms (and the elements of two lists) meet through unify(), never through `==`:
    # a structural comparison decides `p(2) = p(add(1, 1))` without evaluating the function term
    from sym import strip as _strip, lookup as _lookup, mentions as _mentions, show as _show
    selfp = ("param", 1, body.locals[1].get("name") or "")
    otherp = ("param", 2, body.locals[2].get("name") or "")

    def element_of(t, root):
        """Is t (a reference to) an argument / element inside the term `root` — not its functor (index 0)?"""
        t = _strip(t)
        while isinstance(t, tuple) and t and t[0] in ("ref", "deref"):
            t = _strip(t[1])
        lk = _lookup(t)
        if lk is not None:
            coll, key = lk
            if _mentions(coll, lambda y: y == root) or coll == root:
                k = _strip(key)
                return not (isinstance(k, tuple) and k and k[0] == "const" and k[3] == 0)
            return False
        if isinstance(t, tuple) and t and t[0] == "field" and t[2] in ("SLinkedList.term",) and (_mentions(t[1], lambda y: y == root) or _strip(t[1]) == root):
            return True
        import iters as _iters
        pos = _iters.position(t)
        if pos is not None and (_mentions(pos[0], lambda y: y == root) or _strip(pos[0]) == root):
            key = pos[1]
            return not (key[0] == "term" and isinstance(_strip(key[1]), tuple) and _strip(key[1])[0] == "const" and _strip(key[1])[3] == 0)
        return False
    ok5, why5, n5 = True, "", 0
    for pair in (("SComplex", "SComplex"), ("SLinkedList", "SLinkedList")):
        for oc, rel, p in table[pair].paths:
            for e in p.events:
                if e["k"] != "branch":
                    continue
                c = _strip(e["cond"])
                if c[0] == "unop" and c[1] == "Not":
                    c = _strip(c[2])
                if not (c[0] == "call" and (c[1].endswith("::eq") or c[1].endswith("::ne")) and len(c[2]) == 2):
                    continue
                n5 += 1
                a, b = c[2]
                if (element_of(a, selfp) and element_of(b, otherp)) or (element_of(a, otherp) and element_of(b, selfp)):
                    ok5, why5 = False, ("an argument of the one term is compared with an argument of the other by `==` (line %d: %s) "
                                        "instead of being unified with it: a function term there is never evaluated" % (e["line"], _show(c)[:70]))
    ctx.ob("R5", "arguments-meet-through-unify", ok5, ctx.where(body), why5 or
           "no `==` between an argument of the one term and an argument of the other (%d equality tests looked at)" % n5)
    # R4: every return of unify_sfunction is <value of this function term>.unify(other, ss)
    import funcs
    fa = funcs.analyse(prog, ctx)
    if fa is None:
        ctx.missing("R4", "unify_sfunction")
        return
    ctx.fn(fa["us"])
    ctx.fn(fa["dispatcher"])
    n = 0
    seen = {}
    for label, ok, why in fa["returns"]:
        n += 1
        k = seen.get(label, 0)
        seen[label] = k + 1
        ctx.ob("R4", label if k == 0 else "%s#%d" % (label, k), ok, ctx.where(fa["us"]), why)
    ctx.floor("R4", n, 1, "value-returning paths of unify_sfunction")
    ctx.floor("R4/names", len(fa["name2eval"]), 5, "function names dispatched to evaluators")
