"""C13 — a function term is evaluated whichever side of `=` it is on."""
import utable
from utable import summarize
from sym import Walker, strip, show

EXPLANATION = ("Structural necessary conditions of C13 decided over all CFG paths of Unifiable::unify and "
               "unify_sfunction: in the unification dispatch table the row `SFunction` evaluates (EVAL) and the column "
               "`SFunction` forwards to the function operand (SWAP) or evaluates it, for every other operand kind; "
               "unify_sfunction unifies the evaluated value with the other operand under the incoming set.")
RULES = ("R1 cell(SFunction,x) = {EVAL} for x != Anonymous; R2 cell(x,SFunction) ⊆ {SWAP,EVAL} for "
         "x in Atom,SFloat,SInteger,LogicVar,SComplex,SLinkedList; R3 function×function evaluates both (R1 ∧ R2); "
         "R4 every unify_sfunction cell is evaluate_X(terms, ss).unify(other, ss)")
TRUSTED = ["rustc nightly MIR construction"]
OTHERS = ["Atom", "SFloat", "SInteger", "LogicVar", "SComplex", "SLinkedList"]


def run(ctx):
    prog = ctx.prog
    body, table = utable.build(prog, ctx)
    if body is None:
        ctx.missing("R1", "Unifiable::unify")
        return
    r1 = True
    for x in OTHERS + ["SFunction"]:
        c = table[("SFunction", x)]
        s = summarize(c)
        r1 &= ctx.ob("R1", "cell(SFunction,%s)" % x, s == {"EVAL"}, ctx.where(body),
                     "outcomes %s; a function term on the left must be evaluated" % sorted(s))
    r2 = True
    for x in OTHERS:
        c = table[(x, "SFunction")]
        s = summarize(c)
        ok = bool(s) and s <= {"SWAP", "EVAL"}
        r2 &= ctx.ob("R2", "cell(%s,SFunction)" % x, ok, ctx.where(body),
                     "outcomes %s; with a function term on the right the pair must be forwarded to the function "
                     "operand (SWAP) or evaluated, never decided without evaluation" % sorted(s))
    ctx.ob("R3", "cell(SFunction,SFunction)", r1 and r2, ctx.where(body),
           "the first function is evaluated (R1) and its value meets the second through cell(value,SFunction) (R2)")
    # R4
    us = prog.one("unify_sfunction")
    if us is None:
        ctx.missing("R4", "unify_sfunction")
        return
    ctx.fn(us)
    w = Walker(us, max_visits=2)
    ps = w.paths()
    ctx.stats["paths_walked"] += len(ps)
    n = 0
    for p in ps:
        if p.end != "return":
            continue
        r = p.ret
        n += 1
        ok = False
        why = "returns %s" % show(r)
        if r[0] == "call" and r[1].endswith("Unifiable::unify"):
            val, oth, s = (r[2] + (None,) * 3)[:3]
            v = strip(val)
            ok = (v[0] == "call" and v[1].split("::")[-1].startswith("evaluate_") and
                  strip(oth) == ("param", 3, us.locals[3].get("name") or "") and
                  strip(s) == ("param", 4, us.locals[4].get("name") or "") and
                  len(v[2]) >= 2 and strip(v[2][0])[0] == "param" and strip(v[2][0])[1] == 2 and
                  strip(v[2][1]) == strip(s))
        if not any(v_ is True for c, v_, _ in p.decisions if c[0] == "call" and c[1].endswith("::eq")):
            # no function name matched: unknown function, nothing to evaluate
            n -= 1
            continue
        inst = "path@bb%d" % p.blocks[-1]
        for e in p.calls():
            if e["callee"].split("::")[-1].startswith("evaluate_"):
                inst = e["callee"].split("::")[-1]
        ctx.ob("R4", inst, ok, ctx.where(us), why + "; required: evaluate_X(terms, ss).unify(other, ss)")
    ctx.floor("R4", n, 5, "returning paths of unify_sfunction")
