"""C14 — comparison predicates follow numeric and lexicographic order."""
from solver import Solver, real_calls, is_none, some_payload, str_cell
from sym import Walker, strip, show, mentions, lookup
import fdeval

EXPLANATION = ("Values are touched only through comparisons, so a finite set of orderings decides every arm. For each "
               "comparison built-in reached from the dispatch table, and each operand-kind arm (atom×atom, int×int, "
               "float×float, float×int, int×float), the success condition of every CFG path is evaluated under the four "
               "orderings {Less, Equal, Greater, Unordered} of (first operand, second operand); the set of orderings "
               "under which the arm succeeds must be exactly the one the property prescribes for the functor, mixed arms "
               "must compare in f64 with the integer converted by `as f64`, every other operand kind fails. The operands "
               "are terms[0], terms[1] resolved by get_constant (constants directly or at the end of a variable chain, "
               "nothing else); success returns a clone of the incoming set; the chain symbol -> Infix -> functor -> "
               "function is followed link by link. Decides the arms and the registry, not String::cmp / f64 semantics.")
RULES = ("R1 success set per functor and arm (25 arms); R2 every Some is a clone of the incoming set, dispatched behind "
         "the one-shot guard; R3 get_two_constants = (get_constant(terms[0]), get_constant(terms[1])), get_constant table; "
         "R4 `==` `<` `<=` `>` `>=` -> check_infix -> parse_subgoal functor -> dispatch cell -> function with that set; "
         "make_goal's built-in names = dispatch table names")
TRUSTED = ["rustc nightly MIR construction", "std comparison operators on String, i64, f64"]

WANT = {"equal": {"Equal"}, "less_than": {"Less"}, "less_than_or_equal": {"Less", "Equal"},
        "greater_than": {"Greater"}, "greater_than_or_equal": {"Greater", "Equal"}}
SYMBOL = {"==": "equal", "<": "less_than", "<=": "less_than_or_equal", ">": "greater_than", ">=": "greater_than_or_equal",
          "=": "unify"}
ARMS = [("Atom", "Atom"), ("SInteger", "SInteger"), ("SFloat", "SFloat"), ("SFloat", "SInteger"), ("SInteger", "SFloat")]
CONST_KINDS = {"Atom", "SFloat", "SInteger"}


def run(ctx):
    prog = ctx.prog
    S = Solver(prog, ctx)
    if S.bip_fn is None:
        ctx.missing("anchors", "built-in dispatcher")
        return
    B = S.bip_fn
    ctx.fn(B)
    bsn = S.sn(B)
    bps = S.paths(B, 2)
    ctx.stats["paths_walked"] += len(bps)
    # functor -> function reached from the dispatch cell
    cell_fn = {}
    cell_names = set()
    for p in bps:
        c = str_cell(p)
        if c is None:
            continue
        cell_names.add(c)
        if c in WANT and p.end == "return" and p.ret[0] == "call":
            cell_fn.setdefault(c, set()).add(p.ret[1])
            # called with (bip, own ss) behind the guard
            a = p.ret[2]
            first = next((e for e in p.events if e["k"] == "branch"), None)
            ok = len(a) == 2 and strip(a[1]) == ("field", bsn, "ss") and first is not None and \
                mentions(first["cond"], lambda t: t == ("field", bsn, "more_solutions"))
            ctx.ob("R2", "dispatch(%s)" % c, ok, ctx.where(B), "the cell passes (predicate, own ss) behind the one-shot guard")
    for f in WANT:
        if f not in cell_fn or len(cell_fn[f]) != 1:
            ctx.missing("R4", "dispatch cell `%s`" % f)
    # ---- R1 / R2 per function ------------------------------------------------
    import inline
    pol = inline.helpers(prog, keep=("get_two_constants", "get_constant", "get_ground_term"))
    n_arms = 0
    for functor, fns in sorted(cell_fn.items()):
        if len(fns) != 1:
            continue
        F = next((b for b in prog.lib_bodies() if b.path == list(fns)[0]), None)
        if F is None:
            ctx.missing("R1", "body of %s" % list(fns)[0])
            continue
        ctx.fn(F)
        ssp = ("param", 2, F.locals[2].get("name") or "")
        try:
            ps = Walker(F, max_visits=2, max_paths=100000, inline=pol).paths()
        except Exception as e:
            ctx.ob("R1", "arms(%s)" % functor, False, ctx.where(F), "cannot enumerate paths: %s" % e)
            continue
        ctx.stats["paths_walked"] += len(ps)
        # find the tuple of the two constants: term whose ".0"/".1" variants are decided
        arm_paths = {}
        keep_ok, keep_why = True, ""
        for p in ps:
            if p.end != "return":
                continue
            pl = some_payload(p.ret)
            if pl is not None and strip(pl) != ssp:
                keep_ok, keep_why = False, "returns Some(%s), not a clone of the incoming set" % show(pl)
            if pl is None and not is_none(p.ret) and p.ret[0] != "agg":
                # `?` early return: propagated None of get_two_constants
                pass
            kinds = {}
            base = None
            for c, v, bb in p.decisions:
                if c[0] == "variant" and c[1][0] == "field" and c[1][2] in ("0", "1") and isinstance(v, str) and v in (
                        "Atom", "SFloat", "SInteger", "LogicVar", "SComplex", "SLinkedList", "SFunction", "Nil", "Anonymous"):
                    kinds[c[1][2]] = v
                    base = c[1][1]
            arm = (kinds.get("0"), kinds.get("1"))
            arm_paths.setdefault(arm, []).append((p, base))
        ctx.ob("R2", "keeps-set(%s)" % functor, keep_ok, ctx.where(F), keep_why or "every Some(..) is a clone of the incoming set")
        for arm in ARMS:
            n_arms += 1
            plist = arm_paths.get(arm, [])
            inst = "%s(%s,%s)" % (functor, arm[0], arm[1])
            if not plist:
                ctx.ob("R1", inst, False, ctx.where(F), "no path handles this operand pair (it would fail)")
                continue
            succ = set()
            why = ""
            ok = True
            casts = []
            for p, base in plist:
                L = ("field", ("field", base, "0"), "%s.0" % arm[0])
                R = ("field", ("field", base, "1"), "%s.0" % arm[1])
                rel = [(c, v) for c, v, bb in p.decisions
                       if not (c[0] == "variant" and (c[1] == ("field", base, "0") or c[1] == ("field", base, "1") or
                                                      not mentions(c[1], lambda t: t == base)))
                       and (c[0] == "variant" or mentions(c, lambda t: t == base))]
                success = some_payload(p.ret) is not None
                for o in fdeval.ORDERINGS:
                    if o == "Unordered" and "SFloat" not in arm:
                        continue
                    try:
                        cs = []
                        if fdeval.path_feasible(rel, L, R, o, cs):
                            casts += cs
                            if success:
                                succ.add(o)
                    except fdeval.Unknown as e:
                        ok, why = False, "a condition of this arm cannot be interpreted as a comparison of the two operands (%s)" % e
            want = WANT[functor]
            if ok and succ != want:
                ok, why = False, "succeeds for orderings %s of (first, second) operand; `%s` requires exactly %s" % (
                    sorted(succ), functor, sorted(want))
            if ok and arm[0] != arm[1]:
                if not any(c == ("f64", "IntToFloat") for c in casts) or any("FloatToInt" in c[1] for c in casts):
                    ok, why = False, "the mixed arm does not compare in f64 with the integer converted by `as f64` (casts: %s)" % sorted(set(casts))
            ctx.ob("R1", inst, ok, ctx.where(F), why or "succeeds exactly for %s" % sorted(want))
        # every other pair fails
        bad = [a for a, pl in arm_paths.items() if a not in ARMS and any(some_payload(p.ret) is not None for p, b in pl)]
        ctx.ob("R1", "%s(other)" % functor, not bad, ctx.where(F), "operand pairs %s succeed" % bad if bad else "all other operand pairs fail")
    ctx.floor("R1", n_arms, 25, "comparison arms")
    # ---- R3 -------------------------------------------------------------------
    G2 = prog.one("built_in_comparison::get_two_constants")
    GC = prog.one("substitution_set::get_constant")
    if G2 is None or GC is None:
        ctx.missing("R3", "get_two_constants / get_constant")
    else:
        ctx.fn(G2)
        ctx.fn(GC)
        terms = ("param", 1, G2.locals[1].get("name") or "")
        ok, why, n = True, "", 0
        for p in Walker(G2, max_visits=2, inline=pol).paths():
            if p.end != "return":
                continue
            pl = some_payload(p.ret)
            if pl is None:
                continue
            n += 1
            if pl[0] != "tuple" or len(pl[1]) != 2:
                ok, why = False, "returns %s" % show(pl)
                continue
            for k, want_idx in ((0, 0), (1, 1)):
                t = strip(pl[1][k])
                good = t[0] == "field" and t[2] == "Some.0" and t[1][0] == "call" and t[1][1] == GC.path
                if good:
                    lk = lookup(t[1][2][0])          # terms[k] on a Vec (Index::index) or on a slice (a place projection)
                    good = lk is not None and lk[0] == terms and lk[1][0] == "const" and lk[1][3] == want_idx
                if not good:
                    ok, why = False, "operand %d is %s, not get_constant(terms[%d])" % (k, show(t), want_idx)
        ctx.ob("R3", "operands-in-order", ok and n > 0, ctx.where(G2), why or "(get_constant(terms[0]), get_constant(terms[1]))")
        term = ("param", 1, GC.locals[1].get("name") or "")
        ok, why = True, ""
        seen = set()
        for p in Walker(GC, max_visits=2, inline=pol).paths():
            if p.end != "return":
                continue
            # what the path knows about the operand's kind when it returns (all tests on it, in the function and in
            # helpers it calls, combined)
            rv = p.refine.get(term)
            pl = some_payload(p.ret)
            vs = set(rv) if rv is not None else {None}
            seen |= vs
            if pl is not None:
                t = strip(pl)
                if t == term:
                    if not vs <= CONST_KINDS:
                        ok, why = False, "get_constant returns the term itself for %s" % sorted(vs)
                else:
                    # must be the ground term of a variable, itself a constant
                    g = t[1] if t[0] == "field" and t[2] == "Some.0" else None
                    gk = p.refine.get(t)
                    if not (vs == {"LogicVar"} and g is not None and g[0] == "call" and g[1].endswith("get_ground_term") and
                            gk is not None and set(gk) <= CONST_KINDS):
                        ok, why = False, "get_constant returns %s for %s" % (show(t), sorted(vs))
            else:
                if vs & CONST_KINDS and vs <= CONST_KINDS:
                    ok, why = False, "get_constant fails for a constant (%s)" % sorted(vs)
        ctx.ob("R3", "get_constant-table", ok and CONST_KINDS <= seen, ctx.where(GC), why or
               "Some for atoms/numbers directly or at the end of a variable chain, None otherwise")
    # ---- R4 ---------------------------------------------------------------------
    CI = prog.one("infix::check_infix")
    PS = prog.one("parse_goals::parse_subgoal")
    MG = prog.one("parse_goals::make_goal")
    if CI is None or PS is None or MG is None:
        ctx.missing("R4", "check_infix / parse_subgoal / make_goal")
        return
    ctx.fn(CI)
    ctx.fn(PS)
    ctx.fn(MG)
    import infixscan
    try:
        sym2variant = infixscan.symbols(CI, inline=inline.helpers(prog), ctx=ctx)
    except Exception as e:
        sym2variant = {}
        ctx.ob("R4", "check_infix", False, ctx.where(CI), "cannot enumerate: %s" % e)
    variant2functor = {}
    order_ok = {}
    try:
        pps = S.paths(PS, 2)
    except Exception as e:
        pps = []
    for p in pps:
        if p.end != "return" or p.ret[0] != "agg" or p.ret[2] != "Ok":
            continue
        g = strip(dict(p.ret[3]).get("0"))
        lit = None
        if g[0] == "call" and g[1] == MG.path and g[2] and strip(g[2][0])[0] == "const":
            lit = strip(g[2][0])[2].strip('"')
        if lit is None:
            continue
        if lit in WANT:
            # operand order: the goal's terms are [left, right] = (.0, .1) of get_left_and_right's Ok value
            a = strip(g[2][1]) if len(g[2]) > 1 else None
            good = a is not None and a[0] == "vec" and len(a[1]) == 2
            if good:
                l_, r_ = strip(a[1][0]), strip(a[1][1])
                good = l_[0] == "field" and r_[0] == "field" and l_[2] == "0" and r_[2] == "1" and l_[1] == r_[1] and \
                    mentions(l_, lambda t: t[0] == "call" and t[1].endswith("get_left_and_right"))
            order_ok[lit] = order_ok.get(lit, True) and good
        vs = [v for c, v, bb in p.decisions if c[0] == "variant" and isinstance(v, str) and
              v in ("Unify", "Equal", "LessThan", "LessThanOrEqual", "GreaterThan", "GreaterThanOrEqual", "Plus", "Minus", "Multiply", "Divide")]
        if vs:
            variant2functor.setdefault(vs[-1], set()).add(lit)
    for sym, functor in sorted(SYMBOL.items()):
        if functor not in WANT:
            continue
        vs = sym2variant.get(sym, set())
        fs = set()
        for v in vs:
            fs |= variant2functor.get(v, set())
        ok = len(vs) == 1 and fs == {functor} and functor in cell_fn
        ctx.ob("R4", "chain(%s)" % sym, ok, ctx.where(PS),
               "`%s` -> Infix %s -> functor %s -> %s" % (sym, sorted(vs), sorted(fs), sorted(cell_fn.get(functor, []))))
    for lit in sorted(WANT):
        ctx.ob("R4", "operands(%s)" % lit, order_ok.get(lit) is True, ctx.where(PS),
               "the infix form passes [text before the symbol, text after it] as (first, second) operand" if order_ok.get(lit) else
               "the operands of the infix form are not passed in (left, right) order")
    infixscan.left_right_split(ctx, "R4")
    # make_goal's built-in names = dispatch table names
    names = set()
    for p in Walker(MG, max_visits=2, max_paths=300000, inline=inline.helpers(prog)).paths():
        if p.end == "return" and p.ret[0] == "agg" and p.ret[2] == "BuiltInGoal":
            for e in p.events:
                if e["k"] == "branch" and e["value"] is True and e["cond"][0] == "call" and e["cond"][1].endswith("::eq"):
                    for a in e["cond"][2]:
                        if a[0] == "const" and a[2].startswith('"'):
                            names.add(a[2].strip('"'))
                elif e["k"] == "branch" and e["value"] is True and e["cond"][0] == "call" and \
                        (e["cond"][1].endswith("::contains") or e["cond"][1].endswith("::any")):
                    # membership in a named table of functor names (`TABLE.contains(&functor)`)
                    def tbl(t):
                        if t[0] == "const" and isinstance(t[2], str) and t[2] in prog.const_strs:
                            names.update(prog.const_strs[t[2]])
                        return False
                    for a in e["cond"][2]:
                        mentions(a, tbl)
                        tbl(strip(a)) if isinstance(a, tuple) else None
    # every name make_goal turns into a built-in goal has a cell in the dispatcher (else the goal panics when run), and
    # every comparison functor is among them (else `less_than(a, b)` would be looked up as a user predicate); a cell
    # the argument-taking constructor does not know (an argument-less built-in) is no concern of this property
    missing_impl = names - cell_names
    missing_cmp = set(WANT) - names
    ctx.ob("R4", "builtin-names-agree", not missing_impl and not missing_cmp and len(names) >= 16, ctx.where(MG),
           ("make_goal accepts %s as built-ins without a dispatcher cell; comparison functors it does not accept: %s" % (
               sorted(missing_impl), sorted(missing_cmp))) if (missing_impl or missing_cmp) else
           "the %d built-in names accepted by make_goal all have dispatcher cells and include the comparison functors" % len(names))
