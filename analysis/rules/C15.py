"""C15 — engine-built lists hold exactly their elements (the structural clauses only)."""
from sym import Walker, strip, show, mentions, TooManyPaths
import inline

EXPLANATION = ("Structural necessary conditions of C15, decided over the CFG paths of every function that builds list nodes: "
               "(R1/R2) the engine never hands a vector of collected elements to a list builder that looks inside its "
               "elements (one that splices a trailing list in as the rest of the list or drops a trailing empty list) "
               "unless the last element is known not to be a list on that path — otherwise `append(a, [[b]], $X)` gives "
               "[a, b] and a list-valued element does not stay a single element; (R3) every list node built records "
               "count(next) + 1 as its length, or is the empty list, or is a field-for-field copy / map of an existing "
               "node; (R4) a builder that links each new node in front of the list built so far takes its elements from "
               "last to first, so the list holds them in the given order; (R5) only the node of the last element can carry "
               "the tail-variable flag. Decides these shapes of the code, not the lists computed at run time: the text "
               "splitting done by parse_linked_list and the contents of the vectors handed to the builders are not decided.")
RULES = ("R1 inventory of list builders (functions that turn a vector of terms into SLinkedList nodes), classified "
         "element-opaque or element-inspecting; R2 every call of an element-inspecting builder from the crate passes a "
         "vector whose last pushed element is of a known non-list variant on that path; R3 every SLinkedList aggregate: "
         "empty node, or count == count(next) + 1, or node copy / map; R4 front-linking builders consume elements last to "
         "first; R5 tail flag only on the innermost element node, and it is the caller's flag; R6 = C10/R4 term(SLinkedList): "
         "the renamer of clause lists walks every node and stores only renamed terms (nodes, counts and flags are kept)")
TRUSTED = ["rustc nightly MIR construction",
           "bounded unrolling: each loop body is walked up to 2 times per path, so counts and flags are decided for the "
           "first iterations of a builder's loop (the loop body is the same code on every iteration)"]

UNI = "unifiable::Unifiable"
LIST = "SLinkedList"


def _vec_params(b):
    out = []
    for i in range(1, b.mir["arg_count"] + 1):
        ty = b.locals[i]["s"].replace(" ", "")
        if ("Vec<" + UNI + ">") in ty or ("[" + UNI + "]") in ty:
            out.append(("param", i, b.locals[i].get("name") or ""))
    return out


def _has_site(b):
    for blk in b.blocks:
        if blk["cleanup"]:
            continue
        for s in blk["stmts"]:
            if s["k"] == "assign" and s["rv"]["k"] == "aggregate" and s["rv"].get("variant") == LIST:
                return True
    return False


def _is_nil(t):
    t = strip(t)
    return isinstance(t, tuple) and t and t[0] == "agg" and t[2] == "Nil"


def _is_list_agg(t):
    t = strip(t)
    return isinstance(t, tuple) and t and t[0] == "agg" and t[2] == LIST


def _fields(a):
    return {k: strip(v) for k, v in strip(a)[3]}


def _norm(t):
    """(symbolic base or None, integer offset) of a count expression."""
    t = strip(t)
    if not isinstance(t, tuple) or not t:
        return (t, 0)
    if t[0] == "const" and isinstance(t[3], int):
        return (None, t[3])
    if t[0] == "binop" and t[1] in ("Add", "AddWithOverflow", "AddUnchecked"):
        a, b = _norm(t[2]), _norm(t[3])
        if a[0] is None:
            return (b[0], a[1] + b[1])
        if b[0] is None:
            return (a[0], a[1] + b[1])
    if t[0] == "binop" and t[1] in ("Sub", "SubWithOverflow", "SubUnchecked"):
        a, b = _norm(t[2]), _norm(t[3])
        if b[0] is None:
            return (a[0], a[1] - b[1])
    if t[0] == "field" and t[2] in ("0",) and strip(t[1])[0] == "binop" and "WithOverflow" in strip(t[1])[1]:
        return _norm(strip(t[1]))
    if t[0] == "field" and t[2] == LIST + ".count":
        return (("count", strip(t[1])), 0)
    if t[0] == "cast":
        return _norm(t[1])
    if t[0] == "field" and t[2] == "Some.0":
        v = _range_item_value(t)
        if v is not None:
            return v
        c = strip(t[1])
        if c[0] == "call" and c[1].endswith("::checked_sub") and len(c[2]) == 2:
            a, b = _norm(c[2][0]), _norm(c[2][1])
            if b[0] is None:
                return (a[0], a[1] - b[1])
    if t[0] == "call" and t[1].endswith("::len") and len(t[2]) == 1 and t in _LEN_AT:
        # the length of a vector that is only popped from: its length at entry minus the pops made before this call
        return (("len0", strip(t[2][0])), -_LEN_AT[t])
    return (t, 0)


_LEN_AT = {}


def _range_ends(it):
    """(first value, step) of an iterator expression over an integer range, walked forwards or through rev()."""
    it = strip(it)
    if not isinstance(it, tuple) or not it:
        return None
    if it[0] == "call" and it[1].endswith("::rev") and len(it[2]) == 1:
        r = strip(it[2][0])
        if r[0] == "call" and r[1].endswith("RangeInclusive::<Idx>::new") and len(r[2]) == 2:
            return (_norm(r[2][1]), -1)
        if r[0] == "agg" and r[1].endswith("ops::Range"):
            e = _norm(dict(r[3]).get("end"))
            return ((e[0], e[1] - 1), -1)
        return None
    if it[0] == "call" and it[1].endswith("RangeInclusive::<Idx>::new") and len(it[2]) == 2:
        return (_norm(it[2][0]), 1)
    if it[0] == "agg" and it[1].endswith("ops::Range"):
        return (_norm(dict(it[3]).get("start")), 1)
    if it[0] == "call" and it[1].endswith("::into_iter") and len(it[2]) == 1:
        return _range_ends(it[2][0])
    return None


def _range_item_value(t):
    """The k-th item of an iteration over an integer range is first + k * step (k = how often the block of the
    `next()` call was visited before on this path)."""
    c = strip(t[1])
    if not (c[0] == "call" and c[1].endswith("::next") and len(c) >= 4 and len(c[2]) == 1 and isinstance(c[3], tuple)):
        return None
    ends = _range_ends(c[2][0])
    if ends is None:
        return None
    (base, off), step = ends
    return (base, off + step * c[3][1])


def _count_of(n):
    """Length recorded by the list value n."""
    n = strip(n)
    if _is_nil(n):
        return (None, 0)
    if _is_list_agg(n):
        return _norm(_fields(n).get("count"))
    return (("count", n), 0)


def _node_source(f):
    """The existing node S this aggregate copies or maps field by field, or None."""
    c, tv = f.get("count"), f.get("tail_var")
    if not (isinstance(c, tuple) and c[0] == "field" and c[2] == LIST + ".count"):
        return None
    s = strip(c[1])
    if tv != ("field", c[1], LIST + ".tail_var") and tv != ("field", s, LIST + ".tail_var"):
        return None

    def from_field(v, name):
        return mentions(v, lambda x: x[0] == "field" and x[2] == LIST + "." + name and strip(x[1]) == s) or \
            (isinstance(v, tuple) and v[0] == "field" and v[2] == LIST + "." + name and strip(v[1]) == s)
    if from_field(f.get("next"), "next") and from_field(f.get("term"), "term"):
        return s
    return None


def _collect_aggs(t, out, seen):
    """Every SLinkedList aggregate nested anywhere in the term."""
    stack = [t]
    while stack:
        x = stack.pop()
        if not isinstance(x, tuple) or id(x) in seen:
            continue
        seen.add(id(x))
        if len(x) >= 4 and x[0] == "agg" and x[2] == LIST:
            out.append(x)
        for y in x:
            if isinstance(y, tuple):
                stack.append(y)


def _spine(t):
    """Element nodes of a list value from the outermost to the innermost (the empty node / Nil at the end excluded)."""
    out = []
    t = strip(t)
    while _is_list_agg(t):
        f = _fields(t)
        if _is_nil(f.get("term")) and _is_nil(f.get("next")):
            break
        out.append(t)
        t = strip(f.get("next"))
    return out


def _pos(t, P):
    """Where in the vector P an element term was taken from."""
    t = strip(t)
    if not isinstance(t, tuple) or not t:
        return None
    if t[0] == "field" and t[2] == "Some.0":
        c = strip(t[1])
        if c[0] == "call" and c[1].endswith("::next") and mentions(c, lambda x: x == P):
            return ("desc",) if "Rev<" in c[1] or mentions(c, lambda x: x[0] == "call" and x[1].endswith("::rev")) else ("asc",)
        if c[0] == "call" and (c[1].endswith("::pop") or c[1].endswith("::next_back")) and mentions(c, lambda x: x == P):
            return ("desc",)
        return None
    if t[0] == "call" and len(t[2]) == 2 and strip(t[2][0]) == P and \
            (t[1].endswith("::remove") or t[1].endswith("::index") or t[1].endswith("::swap_remove")):
        base, k = _norm_idx(t[2][1], P)
        if base == "abs":
            return ("abs", k)
        if base == "end":
            return ("end", k)
    return None


def _norm_idx(t, P):
    base, off = _norm(t)
    if base is None:
        return ("abs", off)
    if isinstance(base, tuple) and base and base[0] == "call" and base[1].endswith("::len") and mentions(base, lambda x: x == P):
        return ("end", -off)
    if isinstance(base, tuple) and len(base) == 2 and base[0] == "len0" and mentions(base[1], lambda x: x == P):
        return ("end", -off)
    return (None, 0)


_CMP = {"Eq": lambda a, b: a == b, "Ne": lambda a, b: a != b, "Lt": lambda a, b: a < b, "Le": lambda a, b: a <= b,
        "Gt": lambda a, b: a > b, "Ge": lambda a, b: a >= b}


def _feasible(p):
    """False when the path takes a branch on a comparison of two counters with the same symbolic base the wrong way
    (`i - 1 == i` taken as true): an artefact of walking a loop body twice without knowing the counter moved."""
    equal_to = {}
    pops = {}
    for e in p.events:
        if e["k"] == "call" and e.get("args"):
            last = e["callee"].split("::")[-1]
            v0 = strip(e["args"][0])
            if last in ("pop", "remove", "swap_remove") and "Vec" in e["callee"]:
                pops[v0] = pops.get(v0, 0) + 1
            elif last in ("push", "insert", "append", "extend") and "Vec" in e["callee"]:
                pops[v0] = None            # grows: lengths are no longer told apart
            elif last == "len" and e.get("result") is not None and pops.get(v0, 0) is not None:
                _LEN_AT[strip(e["result"])] = pops.get(v0, 0)
        if e["k"] != "branch" or not isinstance(e["value"], bool):
            continue
        c = strip(e["cond"])
        want = e["value"]
        if c[0] == "unop" and c[1] == "Not":
            c, want = strip(c[2]), not want
        if c[0] == "binop" and c[1] in _CMP:
            a, b = _norm(c[2]), _norm(c[3])
            if a[0] == b[0] and a[0] is not None and _CMP[c[1]](a[1], b[1]) != want:
                return False
            if (c[1] == "Eq") == want:
                # two different items of one iteration over a range cannot both equal the same value
                for x, y in ((strip(c[2]), strip(c[3])), (strip(c[3]), strip(c[2]))):
                    it = _range_item(x)
                    if it is not None:
                        prev = equal_to.setdefault((it[0], y), it[1])
                        if prev != it[1]:
                            return False
    return True


def _range_item(x):
    """(iterator identity, step tag) when x is the item of a `next()` on an iterator over an integer range."""
    if not (isinstance(x, tuple) and x and x[0] == "field" and x[2] == "Some.0"):
        return None
    c = strip(x[1])
    if not (c[0] == "call" and c[1].endswith("::next") and len(c) >= 4):
        return None
    if not mentions(c, lambda y: (y[0] == "agg" and "ops::Range" in str(y[1])) or (y[0] == "call" and "ops::Range" in y[1])):
        return None
    return ((c[1], c[2]), c[3])


def _fold_items(it, k):
    """The k-th item of an iterator expression, in the shape the walker gives loop items (so that positions and
    counters can be read off it); None for an adapter that is not modelled."""
    it = strip(it)
    if not isinstance(it, tuple) or not it:
        return None
    if it[0] == "call" and it[1].endswith("::zip") and len(it[2]) == 2:
        a, b = _fold_items(it[2][0], k), _fold_items(it[2][1], k)
        return None if a is None or b is None else ("tuple", (a, b))
    if it[0] == "call" and it[1].endswith("::enumerate") and len(it[2]) == 1:
        b = _fold_items(it[2][0], k)
        return None if b is None else ("tuple", (("const", "usize", "%d_usize" % k, k), b))
    if it[0] == "agg" and it[1].endswith("ops::RangeFrom"):
        st = strip(dict(it[3]).get("start"))
        if st[0] == "const" and isinstance(st[3], int):
            return ("const", st[1], "%d_%s" % (st[3] + k, st[1]), st[3] + k)
        return None
    if it[0] == "call" and it[1].endswith("::rev") and len(it[2]) == 1:
        return ("field", ("call", "<std::iter::Rev<I> as std::iter::Iterator>::next", (it,), ("fold", k)), "Some.0")
    if it[0] == "call" and (it[1].endswith("::into_iter") or it[1].endswith("::iter")) and len(it[2]) == 1:
        return ("field", ("call", "<I as std::iter::Iterator>::next", (it,), ("fold", k)), "Some.0")
    if it[0] == "param":
        return ("field", ("call", "<I as std::iter::Iterator>::next", (it,), ("fold", k)), "Some.0")
    return None


def _unfold(prog, t, steps=2):
    """`iter.fold(init, |acc, item| ..)` walked for its first `steps` items: [(accumulator after k items, events)]."""
    t = strip(t)
    if not (isinstance(t, tuple) and t and t[0] == "call" and t[1].endswith("::fold") and len(t[2]) == 3):
        return None
    it, acc, clo = t[2]
    clo = strip(clo)
    if not (isinstance(clo, tuple) and clo and clo[0] == "closure"):
        return None
    pol = inline.helpers(prog)
    K = pol.closure(clo[1])
    if K is None:
        return None
    out = []
    for k in range(steps):
        item = _fold_items(it, k)
        if item is None:
            return None
        ps = [p for p in Walker(K, max_visits=2, max_paths=2000, inline=pol).paths(init_env={1: clo, 2: acc, 3: item}) if p.end == "return"]
        if len(ps) != 1:
            return out + [(None, [e for p in ps for e in p.events])]      # the closure branches: keep its events
        acc = ps[0].ret
        out.append((acc, ps[0].events))
    return out


class _Unfolded:
    """A builder path whose returned `fold(..)` was replaced by what the fold builds from its first items."""
    def __init__(self, p, ret, events):
        for k in getattr(p, "__slots__", None) or vars(p):
            setattr(self, k, getattr(p, k))
        self.ret = ret
        self.events = list(p.events) + list(events)


def _with_folds(prog, ps):
    out = []
    for p in ps:
        uf = _unfold(prog, p.ret) if p.ret is not None else None
        if not uf:
            out.append(p)
            continue
        evs = []
        for acc, ev in uf:
            evs += ev
            if acc is not None:
                out.append(_Unfolded(p, acc, evs))
        if all(acc is None for acc, ev in uf):
            out.append(_Unfolded(p, p.ret, evs))
    return out


def _builder_paths(prog, b, visits=3):
    w = Walker(b, max_visits=visits, max_paths=60000, inline=inline.helpers(prog))
    return _with_folds(prog, [p for p in w.paths() if p.end == "return" and _feasible(p)])


def run(ctx):
    prog = ctx.prog
    bodies = [b for b in prog.lib_bodies() if b.kind in ("Fn", "AssocFn")]
    ua = prog.adt(UNI)
    uni_variants = {v["name"] for v in ua["variants"]} if ua else set()
    if LIST not in uni_variants:
        ctx.missing("R1", "Unifiable::SLinkedList")
        return
    # ---- R1: builders ------------------------------------------------------------------------------------------------
    builders = {}
    for b in bodies:
        P = _vec_params(b)
        if not P or b.locals[0]["s"].replace(" ", "") != UNI:
            continue
        reach = [b] + [h for h in prog.private_callees(b)] if hasattr(prog, "private_callees") else [b]
        if not any(_has_site(x) for x in reach):
            continue
        try:
            ps = _builder_paths(prog, b)
        except TooManyPaths:
            ctx.ob("R1", "builder(%s)" % b.npath, False, ctx.where(b), "too many paths to classify this list builder")
            continue
        ctx.stats["paths_walked"] += len(ps)
        vec = None
        for p in ps:
            for a in _spine(p.ret):
                for q in P:
                    if mentions(_fields(a).get("term"), lambda x, q=q: x == q):
                        vec = q
        if vec is None:
            continue
        inspecting, where = False, None
        for p in ps:
            for e in p.events:
                if e["k"] != "branch" or e.get("inl") and False:
                    continue
                c = e["cond"]
                x = None
                if c[0] == "variant":
                    vals = e["value"] if isinstance(e["value"], tuple) else (e["value"],)
                    x = c[1] if any(v in uni_variants for v in vals) else None
                elif c[0] == "call" and (c[1].endswith("::eq") or c[1].endswith("::ne")) and UNI in c[1]:
                    x = c
                elif c[0] == "unop" and strip(c[2])[0] == "call" and (strip(c[2])[1].endswith("::eq") or strip(c[2])[1].endswith("::ne")) \
                        and UNI in strip(c[2])[1]:
                    x = strip(c[2])
                if x is None:
                    continue
                if mentions(x, lambda y: y == vec) and not (strip(x) == vec):
                    inspecting, where = True, e["line"]
        builders[b.path] = {"body": b, "vec": vec, "inspecting": inspecting, "paths": ps, "line": where}
        ctx.fn(b)
        ctx.ob("R1", "builder(%s)" % b.npath, True, ctx.where(b, where) if where else ctx.where(b),
               ("element-inspecting: tests the variant of an element of `%s` (line %s) — a trailing list is spliced in / a "
                "trailing empty list dropped; for hand-written lists, not for collected elements" % (vec[2], where)) if inspecting else
               "element-opaque: every element of `%s` becomes the term of one node, whatever it is" % vec[2])
    ctx.floor("R1", len(builders), 1, "list builders (vector of terms -> SLinkedList)")
    ctx.extra["builders"] = {k: ("inspecting" if v["inspecting"] else "opaque") for k, v in builders.items()}
    insp = {k for k, v in builders.items() if v["inspecting"]}
    # ---- R2: engine call sites of inspecting builders -------------------------------------------------------------------
    n_sites = 0
    for g in bodies:
        if g.path in builders:
            continue
        sites = [(i, t) for i, t in g.calls() if (t["callee"].get("resolved") or t["callee"].get("path") or "") in insp]
        if not sites:
            continue
        ctx.fn(g)
        try:
            gps = Walker(g, max_visits=2, max_paths=80000, inline=inline.helpers(prog, keep=tuple(x.split("::")[-1] for x in builders))).paths()
        except TooManyPaths:
            gps = None
        for i, t in sites:
            n_sites += 1
            callee = t["callee"].get("resolved") or t["callee"].get("path")
            B = builders[callee]
            k = B["vec"][1] - 1
            key = "splice(%s->%s)" % (g.npath, callee.split("::")[-1])
            if gps is None:
                ctx.ob("R2", key, False, ctx.where(g, t["line"]), "too many paths to decide what the last element handed to %s is" % callee)
                continue
            ctx.stats["paths_walked"] += len(gps)
            ok, why, n = True, "", 0
            for p in gps:
                for e in p.events:
                    if e["k"] != "call" or e["callee"] != callee or e["bb"] != i or e.get("inl"):
                        continue
                    n += 1
                    v = strip(e["args"][k])
                    adds = [x for x in p.events[:p.events.index(e)] if x["k"] == "call" and not x.get("inlined") and x["args"] and
                            strip(x["args"][0]) == v and x["callee"].split("::")[-1] in (
                                "push", "append", "extend", "extend_from_slice", "insert", "resize", "push_within_capacity")]
                    if adds and not adds[-1]["callee"].endswith("::push"):
                        ok, why = False, ("the last thing added to the vector (line %d: %s) is a whole sequence of elements: the last of them "
                                          "can be a list, which %s would splice in" % (adds[-1]["line"], adds[-1]["callee"].split("::")[-1],
                                                                                     callee.split("::")[-1]))
                        continue
                    pushes = [x for x in adds if x["callee"].endswith("::push") and len(x["args"]) == 2]
                    if not pushes:
                        if v[0] == "call" and v[1].endswith("Vec::<T>::new"):
                            continue        # an empty vector: the empty list
                        ok, why = False, "the vector `%s` handed to %s is not built by pushes on this path: its last element is unknown" % (
                            show(v)[:50], callee.split("::")[-1])
                        continue
                    last = strip(pushes[-1]["args"][1])
                    vs, tt = None, pushes[-1]["args"][1]
                    while vs is None:
                        vs = p.refine.get(tt)
                        if vs is None and isinstance(tt, tuple) and tt and tt[0] == "clone":
                            tt = tt[1]
                        else:
                            break
                    if vs is None and last[0] == "agg":
                        vs = frozenset([last[2]])
                    if vs is None or LIST in vs:
                        ok, why = False, ("the last element pushed (line %d: %s) can be a list: %s would splice it in as the rest of the "
                                          "list (or drop it when it is empty) instead of keeping it as one element" % (
                                              pushes[-1]["line"], show(last)[:60], callee.split("::")[-1]))
            ctx.ob("R2", key, ok and n > 0, ctx.where(g, t["line"]), why or
                   "on each of %d path(s) the last element handed over is of a known non-list variant" % n)
    ctx.ob("R2", "inventory", True, "", "%d call site(s) of %d element-inspecting builder(s) in the crate" % (n_sites, len(insp)))
    # ---- R3: every node built ------------------------------------------------------------------------------------------
    n_aggs, n_fn = 0, 0
    # a private helper that is walked into at each of its call sites (`link_front`, the methods of a builder struct) is
    # judged there, with the values its callers hand it — not on its own with unknown arguments
    pol = inline.helpers(prog)
    callers = {}
    for g in prog.lib_bodies():
        for i, t in g.calls():
            nm = t["callee"].get("resolved") or t["callee"].get("path") or ""
            callers.setdefault(nm, set()).add(g.path)
    by_path = {x.path: x for x in prog.lib_bodies()}
    todo = [b for b in bodies + [c for c in prog.lib_bodies() if c.kind == "Closure"] if _has_site(b)]
    site_fns, in_context, seen_fn = [], {}, set()
    while todo:
        b = todo.pop(0)
        if b.path in seen_fn:
            continue
        seen_fn.add(b.path)
        cs = [c for c in callers.get(b.path, ()) if c != b.path and c in by_path]
        if b.kind != "Closure" and pol(b.path) is not None and cs and b.path not in builders:
            in_context[b.path] = sorted(cs)
            todo.extend(by_path[c] for c in cs)
        elif b.kind == "Closure" and b.parent in by_path and any(
                t["callee"].get("path", "").endswith("::fold") and any(ca.get("closure") == b.path for ca in t["callee"].get("closure_args", []))
                for i, t in by_path[b.parent].calls()):
            in_context[b.path] = [b.parent]          # the step function of a fold: judged on the fold's first items
            todo.append(by_path[b.parent])
        else:
            site_fns.append(b)
    ctx.extra["nodes_judged_at_their_callers"] = in_context
    for b in site_fns:
        n_fn += 1
        ctx.fn(b)
        if b.path in builders:
            ps = builders[b.path]["paths"]
        else:
            try:
                ps = _with_folds(prog, [p for p in Walker(b, max_visits=2, max_paths=80000, inline=pol).paths() if _feasible(p)])
            except TooManyPaths:
                ctx.ob("R3", "nodes(%s)" % b.npath, False, ctx.where(b), "too many paths")
                continue
            ctx.stats["paths_walked"] += len(ps)
        ok, why, n = True, "", 0
        seen_keys = set()
        for p in ps:
            aggs, seen = [], set()
            if p.ret is not None:
                _collect_aggs(p.ret, aggs, seen)
            for e in p.events:
                for a in e.get("args", ()) or ():
                    _collect_aggs(a, aggs, seen)
                if e.get("value") is not None and e["k"] == "write":
                    _collect_aggs(e["value"], aggs, seen)
            for l, v in p.env.items():
                _collect_aggs(v, aggs, seen)
            for a in aggs:
                if a in seen_keys:
                    continue
                seen_keys.add(a)
                n += 1
                f = _fields(a)
                c = _norm(f.get("count"))
                if _is_nil(f.get("term")) and _is_nil(f.get("next")):
                    if c != (None, 0):
                        ok, why = False, "an empty list node records count %s" % show(f.get("count"))[:40]
                    continue
                if _node_source(f) is not None:
                    continue
                cn = _count_of(f.get("next"))
                if c != (cn[0], cn[1] + 1):
                    ok, why = False, "a node records count `%s` but its rest `%s` holds %s element(s): the recorded length is not the number of elements" % (
                        show(f.get("count"))[:40], show(f.get("next"))[:40],
                        (show(cn[0])[:30] + " + %d" % cn[1]) if cn[0] is not None else str(cn[1]))
        n_aggs += n
        ctx.ob("R3", "nodes(%s)" % b.npath, ok and n > 0, ctx.where(b), why or
               "%d distinct node value(s): empty, count(next) + 1, or a field-for-field copy / map of a node" % n)
    ctx.floor("R3", n_fn, 3, "functions that build list nodes")
    # ---- R4 / R5: order and tail flag in the builders ------------------------------------------------------------------
    for path, B in sorted(builders.items()):
        b, P = B["body"], B["vec"]
        flags = [("param", i, b.locals[i].get("name") or "") for i in range(1, b.mir["arg_count"] + 1) if b.locals[i]["s"] == "bool"]
        ok4, why4, n4 = True, "", 0
        ok5, why5, n5, flag_used = True, "", 0, False
        for p in B["paths"]:
            sp = _spine(p.ret)
            if not sp:
                continue
            pos = [_pos(_fields(a).get("term"), P) for a in sp]
            for a1, a2 in zip(pos, pos[1:]):
                if a1 is None or a2 is None:
                    continue
                n4 += 1
                good = None
                if a1[0] == "abs" and a2[0] == "abs":
                    good = a1[1] < a2[1]
                elif a1[0] == "abs" and a2[0] == "end":
                    good = True
                elif a1[0] == "end" and a2[0] == "abs":
                    good = False
                elif a1[0] == "end" and a2[0] == "end":
                    good = a1[1] > a2[1]
                elif a1[0] == "desc" and a2[0] == "desc":
                    good = True
                elif a1[0] == "asc" and a2[0] == "asc":
                    good = False
                if good is False:
                    ok4, why4 = False, ("each new node is linked in front of the list built so far, but the elements of `%s` are taken "
                                        "from first to last (%s then %s): the list comes out in the wrong order" % (P[2], a2, a1))
            # the innermost element node: the last element of the vector
            last = pos[-1]
            if not B["inspecting"] and last is not None and last[0] in ("end",) and last[1] != 1 and _node_source(_fields(sp[-1])) is None:
                ok4, why4 = False, "the innermost node holds element len-%d of `%s`, not the last one: the last element is lost" % (last[1], P[2])
            n5 += 1
            for a in sp[:-1]:
                tv = _fields(a).get("tail_var")
                if not (tv[0] == "const" and tv[3] in (0, False)):
                    ok5, why5 = False, "a node which does not hold the last element carries the tail-variable flag `%s`" % show(tv)[:40]
            tv = _fields(sp[-1]).get("tail_var")
            # a trailing list was spliced in or a trailing empty list dropped on this path: what is now the last node holds
            # an ordinary element, not a tail variable, so it must not get the caller's flag
            absorbed = any(e["k"] == "branch" and strip(e["cond"])[0] == "variant" and mentions(strip(e["cond"])[1], lambda y: y == P) and
                           strip(e["cond"])[1] != P and
                           (e["value"] == LIST or (isinstance(e["value"], tuple) and LIST in e["value"] and len(e["value"]) == 1))
                           for e in p.events)
            if absorbed and tv in flags and _node_source(_fields(sp[-1])) is None:
                ok5, why5 = False, ("after a trailing list was absorbed (spliced in / dropped as empty) the node before it still gets the "
                                    "caller's tail-variable flag `%s`: an ordinary element is marked as the tail variable" % show(tv)[:30])
            if tv in flags:
                flag_used = True
            elif not (tv[0] == "const" and tv[3] in (0, False)) and _node_source(_fields(sp[-1])) is None:
                ok5, why5 = False, "the tail-variable flag of the last element's node is `%s`, not the caller's flag" % show(tv)[:40]
        if flags and not flag_used and n5:
            ok5, why5 = False, "the builder takes a tail-variable flag but no path puts it on the node of the last element"
        ctx.ob("R4", "order(%s)" % b.npath, ok4 and n4 > 0, ctx.where(b), why4 or
               "front-linking; elements taken last to first on %d adjacent pair(s) of nodes" % n4)
        ctx.ob("R5", "tail-flag(%s)" % b.npath, ok5 and n5 > 0, ctx.where(b), why5 or
               ("only the node of the last element carries the caller's flag (%d list shapes)" % n5 if flags else
                "no node carries a tail-variable flag (%d list shapes)" % n5))
    # ---- R6: renamed clause lists (= C10/R4 term(SLinkedList)): the renamer keeps every node and renames only terms ------
    import importlib
    c10 = importlib.import_module("rules.C10")
    before = len(ctx.obs)
    own_floors = dict(ctx.floors)
    c10.run(ctx)
    ctx.floors = own_floors        # the included module's floors are reported under its own property
    keep = []
    for o in ctx.obs[before:]:
        if o["rule"] == "R4" and o["instance"] == "term(SLinkedList)":
            o["instance"] = "C10.R4." + o["instance"]
            o["rule"] = "R6"
            o["key"] = "C15/R6/" + o["instance"]
            keep.append(o)
    del ctx.obs[before:]
    ctx.obs.extend(keep)
    if not keep:
        ctx.missing("R6", "C10/R4/term(SLinkedList)")
