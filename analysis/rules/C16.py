"""C16 — append concatenates the elements of its arguments (the structural clauses only)."""
from solver import Solver, is_none
from sym import Walker, strip, show, mentions, lookup, TooManyPaths
import inline
import iters
import listwalk

EXPLANATION = ("Structural necessary conditions of C16, decided over the MIR paths of the function the built-in dispatcher "
               "calls for `append`: (R1) the elements of a list argument reach the result only through a walk that follows "
               "bound tail variables (its own loop, or a call of such a walk with the argument and the own substitution "
               "set), and a list argument is never added whole as one element; (R2) what is added on a trip round the "
               "argument loop comes from the argument of that trip (itself or its ground term), the loop runs forwards over "
               "all arguments but the last, and the last argument is the one the result is unified with; (R3) the result is "
               "the unification, on the own substitution set, of the last argument with a list built from exactly the "
               "vector collected; (R4 = C15/R1-R2) that list is built by a builder that keeps a list-valued last element "
               "as one element. The one-shot guard of built-ins is C04/C05. Decides these shapes, not the computed lists.")
RULES = ("R1 list arguments contribute through a tail-following walk, never whole; R2 contributions come from the current "
         "argument, arguments 0..n-2 in order, output = argument n-1; R3 result = unify(last argument, builder(collected), "
         "own set); R4 = C15/R1-R2 no splicing builder for collected elements")
TRUSTED = ["rustc nightly MIR construction", "bounded unrolling: each loop body is walked up to 2 times per path"]

LIST = "SLinkedList"


def _terms(t):
    t = strip(t)
    return isinstance(t, tuple) and t and t[0] == "field" and t[2] == "Some.0" and strip(t[1])[0] == "field" and strip(t[1])[2] == "terms"


def _norm_len(t, coll):
    """k when t == len(coll) - k."""
    t = strip(t)
    k = 0
    while isinstance(t, tuple) and t and t[0] == "binop" and t[1] == "Sub" and strip(t[3])[0] == "const":
        k += strip(t[3])[3]
        t = strip(t[2])
    if isinstance(t, tuple) and t and t[0] == "call" and t[1].endswith("::len") and strip(t[2][0]) == coll:
        return k
    return None


def _split_last(t):
    """(collection, part) when t is the `.0` (last element) or `.1` (all the others) of `coll.split_last()`'s payload."""
    t = strip(t)
    if isinstance(t, tuple) and t and t[0] == "field" and t[2] in ("0", "1"):
        x = strip(t[1])
        if x[0] == "field" and x[2] in ("Some.0", "Continue.0"):
            x = strip(x[1])
            while x[0] == "call" and x[1].endswith("::branch") and len(x[2]) == 1:
                x = strip(x[2][0])
            if x[0] == "field" and x[2] == "Some.0":
                x = strip(x[1])
            if x[0] == "call" and x[1].endswith("::split_last") and len(x[2]) == 1:
                return strip(x[2][0]), t[2]
    return None


def _variants(p, t):
    """Variant set the path has established for a value (looked up under each clone layer)."""
    while True:
        vs = p.refine.get(t)
        if vs is not None:
            return vs
        if isinstance(t, tuple) and t and t[0] == "clone":
            t = t[1]
            continue
        if isinstance(t, tuple) and t and t[0] == "agg" and t[2]:
            return frozenset([t[2]])
        return None


def _argument_of(v):
    """The element of the argument vector a contributed value derives from: (collection, position key, element term)."""
    found = []

    def visit(t):
        pos = iters.position(t)
        if pos is not None:
            found.append((strip(pos[0]), pos[1], t))
        return False
    v0 = strip(v)
    visit(v0)
    mentions(v0, visit)
    for coll, key, t in found:
        if _terms(coll) or _split_last(coll) is not None or (coll[0] == "call" and coll[1].endswith("::deref") and _terms(coll[2][0])):
            return coll, key, t
    return None


def run(ctx):
    prog = ctx.prog
    S = Solver(prog, ctx)
    if S.bip_fn is None:
        ctx.missing("anchors", "built-in dispatcher")
        return
    import importlib
    c17 = importlib.import_module("rules.C17")
    cells = c17.dispatch(prog, S, ctx)
    fns = cells.get("append")
    if not fns or len(fns) != 1:
        ctx.missing("anchors", "dispatch cell `append`")
        return
    F = next((b for b in prog.lib_bodies() if b.path == list(fns)[0]), None)
    if F is None:
        ctx.missing("anchors", "body of %s" % list(fns)[0])
        return
    ctx.fn(F)
    ssp = ("param", 2, F.locals[2].get("name") or "")
    ws = listwalk.walkers(prog)
    following, notf = set(), {}
    for b, h, bl in ws:
        ok, why, n = listwalk.follows_tail(prog, b)
        ctx.stats["paths_walked"] += n
        if ok:
            following.add(b.path)
        else:
            notf[b.path] = why
    family = {F.path} | {h.path for h in prog.private_callees(F)}
    crate = {b.path for b in prog.lib_bodies()}
    pol = inline.helpers(prog, keep=tuple(x.split("::")[-1] for x in following) + ("get_ground_term", "get_list", "::unify"))
    try:
        ps = Walker(F, max_visits=2, max_paths=200000, inline=pol).paths()
    except TooManyPaths:
        ctx.ob("R1", "paths", False, ctx.where(F), "too many paths")
        return
    ctx.stats["paths_walked"] += len(ps)
    ok1, why1, n1 = True, "", 0
    ok2, why2, n2 = True, "", 0
    ok3, why3, n3 = True, "", 0
    walks_itself = [x for x in family if x in notf]
    if walks_itself:
        ok1, why1 = False, "%s walks the nodes of a list argument itself and %s" % (walks_itself[0].split("::")[-1], notf[walks_itself[0]])
    for p in ps:
        if p.end != "return" or is_none(p.ret):
            continue
        r = strip(p.ret)
        if r[0] == "field":
            continue        # `?` propagating a None
        n3 += 1
        if not (r[0] == "call" and r[1].endswith("::unify") and len(r[2]) == 3):
            ok3, why3 = False, "append returns %s, not a unification" % show(r)[:60]
            continue
        out, val, s3 = (strip(a) for a in r[2])
        s3b = s3
        while s3b[0] == "call" and s3b[1].endswith("::clone"):
            s3b = strip(s3b[2][0])
        if s3b != ssp:
            ok3, why3 = False, "the result is unified on %s, not on the built-in's own substitution set" % show(s3)[:50]
        if not (val[0] == "call" and val[1] in crate and any(True for a in val[2])):
            ok3, why3 = False, "the last argument is unified with %s, not with a list built from the collected elements" % show(val)[:60]
            continue
        vec = None
        for a in val[2]:
            a0 = strip(a)
            if a0[0] == "call" and (a0[1].endswith("Vec::<T>::new") or a0[1].endswith("::with_capacity") or a0[1].endswith("::collect")):
                vec = a0
        if vec is None:
            ok3, why3 = False, "the list is built from %s, not from a vector collected here" % show(val[2][-1])[:50]
            continue
        # the output argument: terms[len-1], terms.last(), split_last().0
        lk = lookup(out)
        is_last = False
        if lk is not None and _terms(lk[0]) and _norm_len(lk[1], strip(lk[0])) == 1:
            is_last = True
        sl = _split_last(out)
        if sl is not None and _terms(sl[0]) and sl[1] == "0":
            is_last = True
        if out[0] == "field" and out[2] == "Some.0" and strip(out[1])[0] == "call" and strip(out[1])[1].endswith("::last") and _terms(strip(out[1])[2][0]):
            is_last = True
        if not is_last:
            ok2, why2 = False, "the list is unified with %s, not with the last argument" % show(out)[:60]
        # contributions to the vector, in path order
        for e in p.events:
            if e["k"] != "call" or e.get("inlined") or not e["args"]:
                continue
            if strip(e["args"][0]) != vec:
                if e["callee"] in crate and e["callee"] != val[1] and any(strip(a) == vec for a in e["args"]):
                    ok1, why1 = False, ("the vector being collected is handed to %s (line %d), which is not walked into (it is recursive "
                                        "or too large): what it adds is unknown — elements can be spliced in or lost" % (
                                            e["callee"].split("::")[-1], e["line"]))
                continue
            last = e["callee"].split("::")[-1]
            if last in ("push",):
                n1 += 1
                v = strip(e["args"][1])
                vs = _variants(p, e["args"][1])
                if vs is not None and LIST in vs and len(vs) == 1:
                    ok1, why1 = False, "a list argument is added whole as one element (line %d)" % e["line"]
                arg = _argument_of(v)
                src = v
            elif last in ("append", "extend", "extend_from_slice"):
                n1 += 1
                w = strip(e["args"][1])
                while w[0] in ("ref",) or (w[0] == "call" and w[1].endswith("::deref_mut")):
                    w = strip(w[1] if w[0] == "ref" else w[2][0])
                if not (w[0] == "call" and w[1] in following):
                    ok1, why1 = False, ("the elements added at line %d come from %s, which is not a walk that follows bound tail "
                                        "variables" % (e["line"], show(w)[:50]))
                    continue
                ssa = [strip(a) for a in w[2]]
                if not any(a == ssp or (a[0] == "call" and a[1].endswith("::clone") and strip(a[2][0]) == ssp) for a in ssa):
                    ok1, why1 = False, "the walk at line %d is not given the built-in's own substitution set" % e["line"]
                arg = _argument_of(w[2][0])
                src = w[2][0]
            elif e["callee"] in crate and e["callee"] != val[1]:
                ok1, why1 = False, ("the vector being collected is handed to %s (line %d), which is not walked into (it is recursive or "
                                    "too large): what it adds is unknown — elements can be spliced in or lost" % (
                                        e["callee"].split("::")[-1], e["line"]))
                continue
            else:
                continue
            n2 += 1
            if arg is None:
                ok2, why2 = False, "what is added at line %d (%s) does not come from an argument of append" % (e["line"], show(src)[:50])
                continue
            coll, key, el = arg
            if key[0] != "step" or key[2] != 0:
                ok2, why2 = False, "the argument used at line %d is not the one of the current trip round the loop (%s)" % (e["line"], str(key)[:40])
                continue
            step = strip(key[1])
            it = strip(step[2][0]) if step[0] == "call" and step[2] else None
            if _terms(coll) or (coll[0] == "call" and _terms(coll[2][0])):
                base = coll if _terms(coll) else strip(coll[2][0])
                while it is not None and it[0] == "call" and it[1].endswith("::into_iter") and len(it[2]) == 1:
                    it = strip(it[2][0])
                if not (it is not None and it[0] == "agg" and it[1].endswith("ops::Range")):
                    ok2, why2 = False, "the arguments are not visited by a forward range (%s)" % show(it)[:50]
                    continue
                f = dict(it[3])
                st, en = strip(f["start"]), f["end"]
                if not (st[0] == "const" and st[3] == 0 and _norm_len(en, base) == 1):
                    ok2, why2 = False, "the argument loop runs over %s..%s, not over all arguments but the last" % (show(st)[:20], show(en)[:40])
            else:
                sl = _split_last(coll)
                if not (sl is not None and _terms(sl[0]) and sl[1] == "1"):
                    ok2, why2 = False, "the arguments visited are %s" % show(coll)[:50]
                if it is not None and mentions(it, lambda t: t[0] == "call" and t[1].endswith("::rev")):
                    ok2, why2 = False, "the arguments are visited backwards"
    # cause of failure: apart from the final unification, append gives up only on the number of its arguments
    ok5, why5, n5 = True, "", 0
    for p in ps:
        if p.end != "return" or not is_none(p.ret):
            continue
        n5 += 1
        brs = [e for e in p.events if e["k"] == "branch" and not e.get("inl")]
        if not brs:
            continue
        c = strip(brs[-1]["cond"])
        about_elements = mentions(c, lambda t: t == ssp) or mentions(c, lambda t: lookup(t) is not None) or lookup(c) is not None or \
            mentions(c, lambda t: t[0] == "field" and t[2].startswith("SLinkedList."))
        if about_elements:
            ok5, why5 = False, ("append fails (returns None, line %d) on a condition about its arguments' contents or the substitution "
                                "set — `%s` — not only when the final unification fails" % (brs[-1]["line"], show(c)[:70]))
    ctx.ob("R3", "fails-only-on-arity-or-unification", ok5, ctx.where(F), why5 or
           "%d None-returning path(s), each decided by the number of arguments alone" % n5)
    ctx.ob("R1", "list-arguments-by-tail-following-walk", ok1 and n1 > 0, ctx.where(F), why1 or
           "%d contribution(s): single terms pushed, list arguments through %s" % (n1, sorted(x.split("::")[-1] for x in following)))
    ctx.ob("R2", "arguments-in-order", ok2 and n2 > 0, ctx.where(F), why2 or
           "each contribution comes from the argument of its trip; arguments 0..n-2 forwards; the result meets argument n-1 (%d)" % n2)
    ctx.ob("R3", "result-wiring", ok3 and n3 > 0, ctx.where(F), why3 or
           "unify(last argument, builder(collected vector), own set) on %d path(s)" % n3)
    # bindings are read through the resolvers of the substitution-set module (they follow chains), never by indexing
    fam_bodies = [b for b in prog.lib_bodies() if b.path in family]
    raw = listwalk.raw_binding_reads(prog, fam_bodies)
    ctx.ob("R2", "bindings-through-resolvers", not raw, ctx.where(raw[0][0], raw[0][1]) if raw else ctx.where(F),
           ("%s reads a binding by indexing the substitution set itself (line %d): a variable bound to another variable is "
            "resolved one step only" % (raw[0][0].npath, raw[0][1])) if raw else
           "no function of the append family indexes the substitution set; variables are resolved by the module's resolvers")
    # ---- R4 = C15/R1-R2 ------------------------------------------------------------------------------------------------
    c15 = importlib.import_module("rules.C15")
    before = len(ctx.obs)
    own_floors = dict(ctx.floors)
    c15.run(ctx)
    ctx.floors = own_floors        # the included module's floors are reported under its own property
    keep = []
    for o in ctx.obs[before:]:
        if o["rule"] == "R1" or (o["rule"] == "R2" and (o["instance"] == "inventory" or any(x in o["instance"] for x in
                                                                                        (y.replace("suiron::", "") for y in family)))):
            o["instance"] = "C15.%s." % o["rule"] + o["instance"]
            o["rule"] = "R4"
            o["key"] = "C16/R4/" + o["instance"]
            keep.append(o)
    del ctx.obs[before:]
    ctx.obs.extend(keep)
    if not keep:
        ctx.missing("R4", "C15/R1-R2")
