"""C17 — count, include / exclude (functor, join): the structural clauses only."""
from solver import Solver, str_cell, is_none
from sym import Walker, strip, show, mentions, unclone, lookup, TooManyPaths
import inline
import listwalk

EXPLANATION = ("Structural necessary conditions of C17, decided over MIR paths: (R1) every walk over the nodes of a list made "
               "on behalf of a built-in (count_terms, filter, get_terms used by join, the list printer) reads the "
               "tail-variable flag of a node, looks the variable up in the substitution set and goes on into the list it "
               "is bound to — a walk that does not cannot count / filter / join `the elements, continuing through bound "
               "tail variables`; (R2) count unifies its second argument with SInteger(counter(first argument, own set)) on "
               "its own set, the counter being one of those walks; (R3) include / exclude hand (filter term, list, own set, "
               "true / false) to the filter and unify the third argument with its result on their own set; inside the "
               "filter an element is kept exactly when the outcome of unifying the filter term with it agrees with the "
               "flag, the kept value is that element, and the substitution set of that trial unification is used for "
               "nothing but the test (nothing is bound). Decides these shapes, not the computed lists; functor's prefix "
               "matching and join's spacing are value-level and not decided.")
RULES = ("R1 list walks of built-ins follow bound tail variables (flag read, lookup with the set, continue into the bound "
         "list); R2 count wiring; R3 include/exclude wiring, polarity (kept iff trial-unification outcome == flag), kept "
         "value is the tested element, trial set used only as a test; R4 = C15/R1-R2 no splicing builder for the kept elements")
TRUSTED = ["rustc nightly MIR construction", "bounded unrolling: each loop body is walked up to 2-3 times per path"]


def dispatch(prog, S, ctx):
    """name -> {function path} for the built-in dispatcher's cells."""
    B = S.bip_fn
    cell_fn = {}
    for p in S.paths(B, 2):
        c = str_cell(p)
        if c is None or p.end != "return" or p.ret is None:
            continue
        r = strip(p.ret)
        if r[0] == "call":
            cell_fn.setdefault(c, set()).add(r[1])
    return cell_fn


def _is_index(t, coll_pred, k):
    lk = lookup(t)            # `v[k]`, `v.get(k)` payload, a slice place projection
    if lk is None:
        return False
    coll, i = lk
    return coll_pred(strip(coll)) and isinstance(i, tuple) and i[0] == "const" and i[3] == k


def _terms(t):
    return isinstance(t, tuple) and t[0] == "field" and t[2] == "Some.0" and strip(t[1])[0] == "field" and strip(t[1])[2] == "terms"


def _is_ss(t, ssp):
    t = strip(t)
    while isinstance(t, tuple) and t and t[0] == "call" and t[1].endswith("::clone") and len(t[2]) == 1:
        t = strip(t[2][0])
    return t == ssp


def _outcome_expr(x, res):
    """+1 when x is `res.is_some()`, -1 when it is `res.is_none()`, else 0."""
    x = strip(x)
    if isinstance(x, tuple) and x and x[0] == "call" and len(x[2]) == 1 and strip(x[2][0]) == res:
        if x[1].endswith("::is_some"):
            return 1
        if x[1].endswith("::is_none"):
            return -1
    return 0


def _agreement(p, res, flagp, lo, hi):
    """`pass == include` written as one comparison: True / False when a branch between the test and the push compares
    the outcome of the trial unification with the flag directly; None when there is no such branch."""
    for e in p.events[lo:hi]:
        if e["k"] != "branch" or not isinstance(e["value"], bool):
            continue
        c, v = strip(e["cond"]), e["value"]
        if c[0] == "unop" and c[1] == "Not":
            c, v = strip(c[2]), not v
        if c[0] == "binop" and c[1] in ("Eq", "Ne"):
            for x, y in ((c[2], c[3]), (c[3], c[2])):
                sgn = _outcome_expr(x, res)
                if sgn and strip(y) == flagp:
                    same = v if c[1] == "Eq" else not v
                    return same if sgn > 0 else not same
    return None


def run(ctx):
    prog = ctx.prog
    S = Solver(prog, ctx)
    if S.bip_fn is None:
        ctx.missing("anchors", "built-in dispatcher")
        return
    ctx.fn(S.bip_fn)
    # ---- R1 ---------------------------------------------------------------------------------------------------------
    ws = listwalk.walkers(prog)
    following = set()
    for b, h, bl in ws:
        ctx.fn(b)
        ok, why, n = listwalk.follows_tail(prog, b)
        ctx.stats["paths_walked"] += n
        if ok:
            following.add(b.path)
        ctx.ob("R1", "follows-tail(%s)" % b.npath, ok, ctx.where(b), why or
               "reads the tail-variable flag, looks the variable up with the substitution set and walks on into the bound list")
    ctx.floor("R1", len(ws), 3, "list walks made for built-ins (functions with a substitution set and a node-walking loop)")
    ctx.extra["list_walks"] = sorted(b.path for b, h, bl in ws)
    cells = dispatch(prog, S, ctx)
    pol = inline.helpers(prog, keep=tuple(x.split("::")[-1] for x in following) + ("get_ground_term", "get_list", "::unify"))

    def body_of(name):
        fns = cells.get(name)
        if not fns or len(fns) != 1:
            ctx.missing("R2", "dispatch cell `%s`" % name)
            return None
        F = next((b for b in prog.lib_bodies() if b.path == list(fns)[0]), None)
        if F is None:
            ctx.missing("R2", "body of %s" % list(fns)[0])
        return F
    # ---- R2 count ---------------------------------------------------------------------------------------------------
    F = body_of("count")
    if F is not None:
        ctx.fn(F)
        ssp = ("param", 2, F.locals[2].get("name") or "")
        ok, why, n = True, "", 0
        for p in Walker(F, max_visits=2, inline=pol).paths():
            if p.end != "return" or is_none(p.ret):
                continue
            n += 1
            r = strip(p.ret)
            if not (r[0] == "call" and r[1].endswith("::unify") and len(r[2]) == 3):
                ok, why = False, "count returns %s, not the unification of its second argument with the count" % show(r)[:60]
                continue
            out, val, s3 = (strip(a) for a in r[2])
            if not _is_index(out, _terms, 1):
                ok, why = False, "the count is unified with %s, not with the second argument" % show(out)[:60]
            if not _is_ss(s3, ssp):
                ok, why = False, "the result is unified on %s, not on the built-in's own substitution set" % show(s3)[:60]
            c = strip(dict(val[3]).get("0")) if val[0] == "agg" and val[2] == "SInteger" else None
            while c is not None and c[0] in ("cast",):
                c = strip(c[1])
            if c is not None and c[0] == "call" and c[1].endswith("::len") and len(c[2]) == 1:
                c = strip(c[2][0])
            if not (c is not None and c[0] == "call" and c[1] in following and _is_index(c[2][0], _terms, 0) and _is_ss(c[2][1], ssp)):
                ok, why = False, "the value unified is %s, not SInteger(<tail-following walk>(first argument, own set))" % show(val)[:70]
        ctx.ob("R2", "count-wiring", ok and n > 0, ctx.where(F), why or
               "terms[1] = SInteger(walk(terms[0], own set)) on the own set (%d path(s))" % n)
    # ---- R3 include / exclude -----------------------------------------------------------------------------------------
    filters = set()
    for name, flag in (("include", 1), ("exclude", 0)):
        F = body_of(name)
        if F is None:
            continue
        ctx.fn(F)
        ssp = ("param", 2, F.locals[2].get("name") or "")
        ok, why, n = True, "", 0
        for p in Walker(F, max_visits=2, inline=pol).paths():
            if p.end != "return" or is_none(p.ret):
                continue
            r = strip(p.ret)
            if r[0] == "field" and r[2] in ("Break.0",):
                continue
            n += 1
            if not (r[0] == "call" and r[1].endswith("::unify") and len(r[2]) == 3):
                ok, why = False, "%s returns %s" % (name, show(r)[:60])
                continue
            out, val, s3 = (strip(a) for a in r[2])
            if not _is_index(out, _terms, 2):
                ok, why = False, "the filtered list is unified with %s, not with the third argument" % show(out)[:60]
            if not _is_ss(s3, ssp):
                ok, why = False, "the result is unified on %s, not on the built-in's own substitution set" % show(s3)[:60]
            g = strip(val[1]) if val[0] == "field" and val[2] == "Some.0" else val
            if not (g[0] == "call" and g[1] in {b.path for b in prog.lib_bodies()} and len(g[2]) == 4):
                ok, why = False, "the value unified is %s, not the result of the list filter" % show(val)[:60]
                continue
            a0, a1, a2, a3 = (strip(a) for a in g[2])
            if not (_is_index(a0, _terms, 0) and _is_index(a1, _terms, 1) and _is_ss(a2, ssp)):
                ok, why = False, "the filter is called with (%s, %s, %s)" % (show(a0)[:30], show(a1)[:30], show(a2)[:20])
            if not (a3[0] == "const" and a3[1] == "bool" and a3[3] == flag):
                ok, why = False, "%s asks the filter to %s" % (name, "exclude" if flag else "include")
            filters.add(g[1])
        ctx.ob("R3", "%s-wiring" % name, ok and n > 0, ctx.where(F), why or
               "terms[2] = filter(terms[0], terms[1], own set, %s) on the own set" % ("true" if flag else "false"))
    for gp in sorted(filters):
        G = next(b for b in prog.lib_bodies() if b.path == gp)
        ctx.fn(G)
        flagp = next((("param", i, G.locals[i].get("name") or "") for i in range(1, G.mir["arg_count"] + 1) if G.locals[i]["s"] == "bool"), None)
        filtp = ("param", 1, G.locals[1].get("name") or "")
        try:
            gps = Walker(G, max_visits=2, max_paths=200000, inline=inline.helpers(prog, keep=("get_ground_term", "get_list", "::unify"))).paths()
        except TooManyPaths:
            ctx.ob("R3", "polarity(%s)" % G.npath, False, ctx.where(G), "too many paths")
            continue
        ctx.stats["paths_walked"] += len(gps)
        okp, whyp, npush = True, "", 0
        okb, whyb, ntest = True, "", 0
        for p in gps:
            tests = [e for e in p.events if e["k"] == "call" and e["callee"].endswith("::unify") and not e.get("inlined")]
            dec = {}
            flags_seen = set()
            for c, v, bb in p.decisions:
                c0 = strip(c)
                if c0[0] == "variant":
                    dec[strip(c0[1])] = v
                if c0 == flagp:
                    dec["flag"] = v
                    flags_seen.add(v)
            if len(flags_seen) > 1:
                continue        # the flag taken as true in one trip round the loop and as false in another: not a run
            for e in tests:
                ntest += 1
                res = strip(e["result"]) if e.get("result") is not None else None
                if strip(e["args"][0]) != filtp:
                    okp, whyp = False, "an element is tested against %s, not the filter term" % show(e["args"][0])[:50]
                if res is None:
                    continue
                # the trial unification's set is used for nothing but the test
                used = False
                if p.ret is not None and mentions(p.ret, lambda t: t == res):
                    used = True
                for x in p.events:
                    if x is e or x["k"] != "call" or x.get("inlined"):
                        continue
                    if x["callee"].endswith("::is_some") or x["callee"].endswith("::is_none"):
                        continue
                    if any(mentions(a, lambda t: t == res) or strip(a) == res for a in x["args"]):
                        used = True
                if used:
                    okb, whyb = False, "the substitution set of the trial unification (line %d) is used beyond the test: the filter binds variables" % e["line"]
            for i, e in enumerate(p.events):
                if e["k"] != "call" or not e["callee"].endswith("::push") or e.get("inlined"):
                    continue
                npush += 1
                v = unclone(strip(e["args"][1]))
                prior = [t for t in tests if p.events.index(t) < i]
                if not prior:
                    okp, whyp = False, "an element is kept (line %d) without having been tested against the filter term" % e["line"]
                    continue
                t = prior[-1]
                if unclone(strip(t["args"][1])) != v:
                    okp, whyp = False, "the element kept (%s) is not the element tested (%s)" % (show(v)[:40], show(t["args"][1])[:40])
                res = strip(t["result"]) if t.get("result") is not None else None
                out = dec.get(res)
                fl = dec.get("flag")
                agree = _agreement(p, res, flagp, p.events.index(t), i)
                if agree is True:
                    continue
                if agree is False:
                    okp, whyp = False, "an element is kept (line %d) when the outcome of its test differs from the include flag" % e["line"]
                    continue
                if out not in ("Some", "None") or not isinstance(fl, bool):
                    okp, whyp = False, "cannot relate the kept element (line %d) to the outcome of its test and the include flag" % e["line"]
                elif (out == "Some") != fl:
                    okp, whyp = False, ("an element is kept when the filter term %s it and the flag says %s" % (
                        "unifies with" if out == "Some" else "does not unify with", "include" if fl else "exclude"))
        # what the filter hands back: a list built from exactly the vector the kept elements were pushed into
        okr, whyr, nret = True, "", 0
        crate_fns = {x.path for x in prog.lib_bodies()}
        for p in gps:
            if p.end != "return" or p.ret is None:
                continue
            r = strip(p.ret)
            if not (r[0] == "agg" and r[2] == "Some"):
                continue
            nret += 1
            pl = strip(dict(r[3]).get("0"))
            vecs = {strip(e["args"][0]) for e in p.events if e["k"] == "call" and e["callee"].endswith("::push") and not e.get("inlined")}
            if not (pl[0] == "call" and pl[1] in crate_fns and any(strip(a) in vecs or (not vecs and strip(a)[0] == "call" and
                                                                                        strip(a)[1].endswith("Vec::<T>::new")) for a in pl[2])):
                okr, whyr = False, "the filter returns %s, not a list built from the elements it kept" % show(pl)[:70]
        ctx.ob("R3", "result(%s)" % G.npath, okr and nret > 0, ctx.where(G), whyr or
               "every Some(..) is builder(vector of kept elements) (%d path(s))" % nret)
        ctx.ob("R3", "polarity(%s)" % G.npath, okp and npush > 0, ctx.where(G), whyp or
               "an element is kept iff (filter term unifies with it) == flag; the kept value is the tested element (%d pushes)" % npush)
        ctx.ob("R3", "binds-nothing(%s)" % G.npath, okb and ntest > 0, ctx.where(G), whyb or
               "the set of each trial unification is only tested for Some / None (%d tests)" % ntest)
    # the walks and the built-ins read bindings through the resolvers of the substitution-set module, never by indexing
    fns_ = {b.path: b for b, h, bl in ws}
    for name in ("count", "include", "exclude"):
        for fp in cells.get(name, ()):
            fb = next((b for b in prog.lib_bodies() if b.path == fp), None)
            if fb is not None:
                fns_[fb.path] = fb
                for h in prog.private_callees(fb):
                    fns_[h.path] = h
    for gp in filters:
        G = next(b for b in prog.lib_bodies() if b.path == gp)
        fns_[G.path] = G
        for h in prog.private_callees(G):
            fns_[h.path] = h
    raw = listwalk.raw_binding_reads(prog, list(fns_.values()))
    ctx.ob("R1", "bindings-through-resolvers", not raw, ctx.where(raw[0][0], raw[0][1]) if raw else "",
           ("%s reads a binding by indexing the substitution set itself (line %d): a chain of variables is followed one step only"
            % (raw[0][0].npath, raw[0][1])) if raw else
           "none of %d list walks / built-in functions indexes the substitution set; variables are resolved by the module's resolvers" % len(fns_))
    # ---- R4 = C15/R1-R2 for the filter: the filtered list is built by a builder that keeps every element ---------------
    import importlib
    c15 = importlib.import_module("rules.C15")
    fam = set()
    for gp in filters:
        G = next(b for b in prog.lib_bodies() if b.path == gp)
        fam |= {gp} | {h.path for h in prog.private_callees(G)}
    before = len(ctx.obs)
    own_floors = dict(ctx.floors)
    c15.run(ctx)
    ctx.floors = own_floors        # the included module's floors are reported under its own property
    keep = []
    for o in ctx.obs[before:]:
        if o["rule"] == "R1" or (o["rule"] == "R2" and (o["instance"] == "inventory" or any(x in o["instance"] for x in fam))):
            o["instance"] = "C15.%s." % o["rule"] + o["instance"]
            o["rule"] = "R4"
            o["key"] = "C17/R4/" + o["instance"]
            keep.append(o)
    del ctx.obs[before:]
    ctx.obs.extend(keep)
    if not keep:
        ctx.missing("R4", "C15/R1-R2")
