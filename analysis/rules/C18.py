"""C18 — parsers return a value or an error for every input, never panic."""
import json
import os
from callgraph import CallGraph
from cfg import BodyCfg, reachable
from bounds import Bounds, Lin
from facts import callee_name
import c18_premises

EXPLANATION = ("Every function reachable from the parser entry points is inventoried for panic sites in MIR: explicit "
               "panics, unwrap/expect, indexing and slicing (Index impls and bounds-check asserts), arithmetic overflow "
               "asserts, division by zero, and a deny-list of panicking std calls (Vec::remove/insert, ...). Each site "
               "must be discharged: (auto) its requirement (i < len, a <= b <= len, a >= b) is proved by a "
               "difference-constraint refutation from guards that dominate the site and are not killed on the way; "
               "(contract) a requirement over the function's parameters is proved at every call site instead; (counter / "
               "A1) small-constant arithmetic on counters and positions, under the stated input-length assumption; "
               "(reviewed) an entry of reference/C18_reviewed.json whose premises are re-checked mechanically on every "
               "run; otherwise it is a violation. Natural loops must be driven by an iterator or by a counter that moves "
               "strictly towards a loop-invariant bound. Decides absence of panics and of unbounded loops in "
               "parser-reachable code modulo the reviewed table; not stack exhaustion on deeply nested input.")
RULES = ("P1 explicit panics; P2 unwrap/expect; P3 indexing/slicing; P4 arithmetic asserts; P5 panicking std calls; "
         "L loops terminate; each site: auto | contract | counter | A1 | reviewed(premises hold) | violation")
TRUSTED = ["rustc nightly MIR construction (overflow checks on in the dev profile)",
           "std functions outside the deny-list do not panic on valid arguments",
           "A1: usize values in parser code are positions, lengths or counters bounded by the input length, and inputs are "
           "shorter than 2^31 characters, so `x + c` / `x - c` on counters with |c| <= 8 cannot wrap"]

ENTRIES = ["parse_terms::parse_term", "s_linked_list::parse_linked_list", "s_complex::parse_complex",
           "built_in_functions::parse_function", "s_complex::parse_query", "parse_goals::parse_subgoal",
           "tokenizer::generate_goal", "rule::parse_rule", "parse_terms::parse_arguments", "logic_var::make_logic_var",
           "parse_goals::indices_of_parentheses", "infix::check_infix", "infix::check_arithmetic_infix",
           "token::make_leaf_token"]
# helpers taking positions, counts or token kinds (get_left_and_right, check_quotes, make_branch_token, equal_escape ...)
# are not entry points: their requirements become preconditions that every call site must discharge.

UNWRAPS = ("::unwrap", "::expect", "::unwrap_err", "::expect_err")
DENY = ("Vec::<T, A>::remove", "Vec::<T, A>::insert", "Vec::<T, A>::swap_remove", "Vec::<T, A>::drain",
        "Vec::<T, A>::split_off", "String::remove", "String::insert", "String::insert_str",
        "String::drain", "String::split_off", "String::replace_range",
        "RefCell::<T>::borrow", "RefCell::<T>::borrow_mut", "slice::<impl [T]>::split_at", "slice::<impl [T]>::copy_from_slice",
        "slice::<impl [T]>::swap", "str::<impl str>::split_at", "char::from_u32_unchecked",
        "slice::<impl [T]>::chunks", "slice::<impl [T]>::windows", "Iterator::step_by", "std::process::exit", "std::process::abort")


def reviewed_table():
    p = os.path.join(os.path.dirname(os.path.dirname(os.path.dirname(os.path.abspath(__file__)))), "reference", "C18_reviewed.json")
    if not os.path.exists(p):
        return []
    with open(p) as f:
        return json.load(f)["entries"]


class Fn:
    """Per-function analysis state."""

    def __init__(self, body):
        self.b = body
        self.bnd = Bounds(body)

    def lname(self, l):
        b = self.b
        n = b.locals[l].get("name")
        if n:
            return n
        sd = self.bnd.single_def(l)
        if sd is not None and sd[2]["k"] == "call":
            t = sd[2]["t"]
            nm = callee_name(t).split("::")[-1]
            if nm == "branch" and len(t["args"]) == 1 and t["args"][0]["k"] in ("copy", "move") and not t["args"][0]["place"]["p"]:
                # `f(..)?`: name the call whose result is being propagated
                inner = self.bnd.single_def(t["args"][0]["place"]["l"])
                if inner is not None and inner[2]["k"] == "call":
                    return "ret(%s)?" % callee_name(inner[2]["t"]).split("::")[-1]
            return "ret(%s)" % nm
        return "tmp"

    def show_base(self, base):
        if base[0] == "L" or base[0] == "op":
            return self.lname(base[1])
        if base[0] == "len":
            return "len(%s)" % self._key(base[1])
        if base[0] == "pl":
            return self._key(base[1])
        return str(base[1])

    def _key(self, k):
        # keys start with a local name or _N
        head = k.split(".")[0]
        if head.startswith("_") and head[1:].isdigit():
            return self.lname(int(head[1:])) + k[len(head):]
        return k

    def show(self, lin):
        parts = []
        for base, v in sorted(lin.t.items(), key=lambda x: repr(x)):
            nm = self.show_base(base)
            parts.append(("%s" % nm) if v == 1 else ("-%s" % nm) if v == -1 else "%d*%s" % (v, nm))
        s = "+".join(parts).replace("+-", "-")
        if lin.c or not parts:
            s += ("%+d" % lin.c) if parts else str(lin.c)
        return s

    def alpha(self, goals, facts):
        """Rename-invariant rendering: (requirement string, sorted fact strings).
        Bases are numbered in order of first appearance in the requirement;
        bases that occur only in facts are rendered by kind and type."""
        names = {}

        def skey(item):
            base, v = item
            ty = self.b.locals[base[1]]["s"] if base[0] in ("L", "op") else ""
            return (base[0], ty, -v, self.show_base(base))

        def nm(base, assign):
            if base in names:
                return names[base]
            if assign:
                ty = self.b.locals[base[1]]["s"] if base[0] in ("L", "op") else ""
                names[base] = "%s%d%s" % ({"L": "v", "op": "t", "len": "n", "pl": "p"}.get(base[0], "x"), len(names),
                                          (":" + ty) if ty else "")
                return names[base]
            if base[0] == "len":
                # a length of something whose own base is named?
                return "len(?)"
            ty = self.b.locals[base[1]]["s"] if base[0] in ("L", "op") else ""
            return "?%s" % ty

        def render(lin, assign):
            parts = []
            for base, v in sorted(lin.t.items(), key=skey):
                n_ = nm(base, assign)
                parts.append(n_ if v == 1 else "-" + n_ if v == -1 else "%d*%s" % (v, n_))
            parts_s = "+".join(parts).replace("+-", "-")
            return "%s%s" % (parts_s, ("%+d" % lin.c) if lin.c else "") if parts else str(lin.c)
        req = " & ".join(render(g, True) + "<=0" for g in goals) if goals else ""
        fs = sorted({render(ln, False) + ("==0" if op == "eq" else "<=0") for ln, op in facts})
        return req, fs

    def alpha_defs(self, goals):
        """Rename-invariant description of how each *named variable* the requirement speaks about is assigned in this
        function: {placeholder: sorted assignment forms}.  A review that argues from "end_index only ever becomes the
        length or an earlier index" is only as good as that set of assignments."""
        bnd = self.bnd
        order = []
        for g in goals or []:
            for base, v in sorted(g.t.items(), key=lambda it: (it[0][0], -it[1], self.show_base(it[0]))):
                if base not in order:
                    order.append(base)
        name_of = {}
        for i, base in enumerate(order):
            name_of[base] = "%s%d" % ({"L": "v", "op": "t", "len": "n", "pl": "p"}.get(base[0], "x"), i)
        by_local = {base[1]: nm for base, nm in name_of.items() if base[0] in ("L", "op")}

        def role(l):
            r = root_local(bnd, l)
            if r in by_local:
                return by_local[r]
            if l in by_local:
                return by_local[l]
            return "?" + self.b.locals[r]["s"]

        def form(rv, depth=0):
            k = rv.get("k")
            if k == "use" and rv["op"]["k"] == "const":
                return "c%s" % rv["op"].get("int", rv["op"].get("repr"))
            f = inc_form(bnd, rv)
            if f is not None:
                return "%s%+d" % (role(f[0]), f[1])
            if k == "use" and rv["op"]["k"] in ("copy", "move"):
                pl = rv["op"]["place"]
                if not pl["p"]:
                    sd = bnd.single_def(pl["l"])
                    if sd is not None and depth < 4 and not self.b.locals[pl["l"]].get("name"):
                        return form(sd[2], depth + 1)
                    return "=" + role(pl["l"])
                return "=proj"
            if k == "cast" and rv["op"]["k"] in ("copy", "move") and not rv["op"]["place"]["p"]:
                sd = bnd.single_def(rv["op"]["place"]["l"])
                if sd is not None and depth < 4 and not self.b.locals[rv["op"]["place"]["l"]].get("name"):
                    return "cast(" + form(sd[2], depth + 1) + ")"
                return "cast(" + role(rv["op"]["place"]["l"]) + ")"
            if k == "call":
                return "call:" + callee_name(rv["t"]).split("::")[-1]
            if k == "binop":
                return "binop:" + rv["op"]
            return str(k)
        out = {}
        for base, nm in name_of.items():
            if base[0] != "L" or not self.b.locals[base[1]].get("name"):
                continue
            if base[1] <= self.b.mir["arg_count"]:
                out[nm] = ["param"]
                continue
            out[nm] = sorted({form(rv) for bb, k, rv in bnd.defs.get(base[1], [])})
        return out

    def is_counter(self, local):
        bnd = self.bnd
        defs = bnd.defs.get(local, [])
        if not defs or local in bnd.mut_borrowed:
            return False
        for bb, k, rv in defs:
            if rv["k"] == "use" and rv["op"]["k"] == "const" and rv["op"].get("int") is not None:
                continue
            f = inc_form(bnd, rv)
            if f is not None and f[0] == local and abs(f[1]) <= 8:
                continue
            return False
        return True


def panic_message(fn, t, depth=0):
    """A string constant that identifies a panic site (its message), followed through format!/helper calls."""
    bnd = fn.bnd
    best = ""
    for a in t["args"]:
        if a["k"] == "const":
            r = a.get("static") or a.get("repr", "")
            if r.startswith(('"', 'b"')) or a.get("static"):
                best = best or r
        elif a["k"] in ("copy", "move") and depth < 5:
            sd = bnd.single_def(a["place"]["l"])
            seen = 0
            while sd is not None and seen < 6:
                seen += 1
                rv = sd[2]
                if rv["k"] == "call":
                    m = panic_message(fn, rv["t"], depth + 1)
                    if m:
                        best = best or m
                    break
                if rv["k"] == "use" and rv["op"]["k"] == "const":
                    r = rv["op"].get("static") or rv["op"].get("repr", "")
                    best = best or r
                    break
                src = None
                if rv["k"] in ("ref", "rawptr"):
                    src = rv["place"]["l"]
                elif rv["k"] in ("use", "cast") and rv["op"]["k"] in ("copy", "move"):
                    src = rv["op"]["place"]["l"]
                elif rv["k"] == "aggregate":
                    for o in rv["ops"]:
                        if o["k"] in ("copy", "move"):
                            src = o["place"]["l"]
                if src is None:
                    break
                sd = bnd.single_def(src)
    return best


def param_only(fn, lin):
    """All bases are parameters (or lengths / places rooted in parameters)."""
    n = fn.b.mir["arg_count"]
    names = {fn.b.locals[i].get("name") for i in range(1, n + 1)}
    for base in lin.bases():
        if base[0] == "L" and 1 <= base[1] <= n:
            continue
        if base[0] in ("len", "pl") and base[1].split(".")[0] in names:
            continue
        return False
    return True


def run(ctx):
    prog = ctx.prog
    cg = CallGraph(prog, crates=["suiron-lib"])
    roots = []
    for e in ENTRIES:
        b = prog.one(e)
        if b is None:
            ctx.missing("entries", e)
        else:
            roots.append(b.path)
    R = cg.reach(roots)
    ctx.extra["parser_reachable_functions"] = sorted(R)
    ctx.floor("entries", len(R), 40, "functions reachable from the parser entry points")
    reviewed = reviewed_table()
    used_reviews = set()
    counts = {"auto": 0, "contract": 0, "counter": 0, "A1": 0, "reviewed": 0, "violation": 0}
    fns = {p: Fn(cg.nodes[p]) for p in R}
    # return-value summaries of parser functions, proved on the callee and used as facts at its call sites:
    #   ge_param k            every value returned is >= the (never reassigned) usize parameter k
    #   some_plus_le_len k,c  every Some(x) returned has x + c <= len(parameter k)
    summ_cache = {}

    def summaries(path):
        if path in summ_cache:
            return summ_cache[path]
        summ_cache[path] = None          # recursion guard
        f = fns.get(path)
        if f is None or f.b.kind == "Closure":
            return None
        b_, bnd_ = f.b, f.bnd
        n = b_.mir["arg_count"]
        defs0 = [d for d in bnd_.defs.get(0, [])]
        out = {"ge_param": [], "some_plus_le_len": []}
        if not defs0:
            return None
        unmod = [k for k in range(1, n + 1) if not bnd_.defs.get(k) and k not in bnd_.mut_borrowed]

        def after(bb, k):
            """site just after the definition at (bb, k)"""
            if k == "term":
                tg = b_.blocks[bb]["term"].get("target")
                return (tg, 0) if tg is not None else None
            return (bb, k + 1) if k + 1 < len(b_.blocks[bb]["stmts"]) else (bb, "term")
        if b_.ret_ty in ("usize", "u64"):
            for k in unmod:
                if b_.locals[k]["s"] not in ("usize", "u64"):
                    continue
                good = True
                for bb, kk, rv in defs0:
                    if rv["k"] == "use":
                        ln = bnd_.lin_op(rv["op"])
                    elif rv["k"] == "binop" and rv["op"] in ("Add", "Sub"):
                        ln = bnd_.lin_op(rv["l"]).add(bnd_.lin_op(rv["r"]), 1 if rv["op"] == "Add" else -1)
                    else:
                        good = False
                        break
                    if not bnd_.prove(Lin({("L", k): 1}).add(ln, -1), bb, kk):
                        good = False
                        break
                if good:
                    out["ge_param"].append(k)
        if b_.ret_ty.replace(" ", "") == "std::option::Option<usize>":
            for k in unmod:
                ty = b_.locals[k]["s"]
                if not (ty.startswith("&") and ("[" in ty or "Vec<" in ty)):
                    continue
                key, _ = bnd_.root_key({"l": k, "p": ["deref"]})
                ln = Lin({("len", key): 1})
                for c in (2, 1, 0):
                    good = True
                    for bb, kk, rv in defs0:
                        if rv["k"] == "aggregate" and rv.get("variant") == "None":
                            continue
                        if rv["k"] == "aggregate" and rv.get("variant") == "Some" and len(rv["ops"]) == 1:
                            x = bnd_.lin_op(rv["ops"][0])
                            if not bnd_.prove(x.add(ln, -1).add(Lin({}, c)), bb, kk):
                                good = False
                            continue
                        if rv["k"] == "call":
                            site = after(bb, kk)
                            item = Lin({("pl", bnd_.root_key({"l": 0, "p": [{"downcast": "Some"}, {"field": "0"}]})[0]): 1})
                            if site is None or not bnd_.prove(item.add(ln, -1).add(Lin({}, c)), site[0], site[1]):
                                good = False
                            continue
                        good = False
                    if good:
                        out["some_plus_le_len"].append((k, c))
                        break
        summ_cache[path] = out if (out["ge_param"] or out["some_plus_le_len"]) else None
        return summ_cache[path]
    for f in fns.values():
        f.bnd.summary_of = summaries
        f.summaries = summaries
    # contracts std gives to closure parameters: the closure handed to an adaptor of `s.windows(n)` / `chunks_exact(n)`
    # (position, any, all, map, for_each, find, filter) receives slices of exactly n elements
    for p in R:
        pb = cg.nodes[p]
        for bi, t in pb.calls():
            for ca in t["callee"].get("closure_args", []):
                cf = fns.get(ca["closure"])
                if cf is None or ca.get("fn_item") or not t["args"] or t["args"][0]["k"] not in ("copy", "move") or t["args"][0]["place"]["p"]:
                    continue
                cre = fns[p].bnd._unwrap_def(t["args"][0]["place"]["l"])
                if cre is None or cre[2]["k"] != "call":
                    continue
                ct = cre[2]["t"]
                cn = (ct["callee"].get("resolved") or ct["callee"].get("path", "")).split("::")[-1]
                if cn in ("windows", "chunks_exact") and len(ct["args"]) == 2 and ct["args"][1]["k"] == "const" and \
                        (ct["args"][1].get("int") or 0) >= 1 and cf.b.mir["arg_count"] >= 2:
                    nm_ = cf.b.local_name(2)
                    cf.bnd.global_facts.append((Lin({("len", nm_): 1}, -ct["args"][1]["int"]), "eq"))
    seen_keys = {}
    rev_seen = {}
    dump = []
    # callers of each function inside R
    callers = {}
    for p in R:
        b = cg.nodes[p]
        for i, t in b.calls():
            nm = t["callee"].get("resolved") or t["callee"]["path"]
            if nm in R:
                callers.setdefault(nm, []).append((p, i, t))

    def lift(fn, goals, depth=0):
        """Prove param-only goals at every call site of fn. Returns (ok, text)."""
        cs = callers.get(fn.b.path, [])
        if not cs or depth > 3:
            return False, "no call site can be examined"
        n = fn.b.mir["arg_count"]
        pname = {fn.b.locals[i].get("name"): i for i in range(1, n + 1)}
        for cp, bb, t in cs:
            cf = fns[cp]
            new_goals = []
            for g in goals:
                ng = Lin({}, g.c)
                for base, v in g.t.items():
                    if base[0] == "L":
                        arg = t["args"][base[1] - 1]
                        ng = ng.add(cf.bnd.lin_op(arg), v)
                    else:
                        root = base[1].split(".")[0]
                        rest = base[1][len(root):]
                        arg = t["args"][pname[root] - 1]
                        if arg["k"] not in ("copy", "move"):
                            return False, "constant argument"
                        key, _ = cf.bnd.root_key(arg["place"])
                        ng = ng.add(Lin({(base[0], key + rest): 1}), v)
                new_goals.append(ng)
            for ng in new_goals:
                if cf.bnd.prove(ng, bb, "term"):
                    continue
                if param_only(cf, ng):
                    ok, why = lift(cf, [ng], depth + 1)
                    if ok:
                        continue
                return False, "call at %s:%d does not establish %s <= 0" % (cf.b.file, t["line"], cf.show(ng))
        return True, "established at %d call site(s)" % len(cs)

    def len_bounded(fn, ll, bb):
        """x <= len(K) + 64 for some collection K whose length occurs in a guard in force at the site: then x + c with
        c <= 8 cannot wrap (Vec/str lengths are at most isize::MAX). Returns a description or None."""
        bases = set()
        for ln, _op in fn.bnd.facts_at(bb, "term"):
            for base in ln.t:
                if base[0] == "len":
                    bases.add(base)
        for base in sorted(bases):
            if fn.bnd.prove(ll.add(Lin({base: 1}), -1).add(Lin({}, -64)), bb, "term"):
                return "<= len(%s)+64" % base[1]
        return None

    def settle(fn, kind, what, line, bb, goals=None, cls=None, why_fail="", detail=None, alpha_terms=None, alpha_tag=""):
        b = fn.b
        base_key = "%s:%s:%s" % (b.npath, kind, what)
        n = seen_keys.get(base_key, 0)
        seen_keys[base_key] = n + 1
        inst = base_key if n == 0 else "%s#%d" % (base_key, n)
        if cls is not None:
            counts[cls] += 1
            ctx.ob(kind, inst, True, ctx.where(b, line), "%s: %s" % (cls, detail))
            return
        if goals is not None:
            if all(fn.bnd.prove(g, bb, "term") for g in goals):
                counts["auto"] += 1
                ctx.ob(kind, inst, True, ctx.where(b, line), "auto: %s proved from dominating guards" % what)
                return
            unproved = [g for g in goals if not fn.bnd.prove(g, bb, "term")]
            if all(param_only(fn, g) for g in unproved):
                ok, txt = lift(fn, unproved)
                if ok:
                    counts["contract"] += 1
                    ctx.ob(kind, inst, True, ctx.where(b, line), "contract: precondition %s %s" % (what, txt))
                    return
                why_fail = "%s (as a precondition: %s)" % (why_fail, txt)
        facts = fn.bnd.facts_at(bb, "term")
        areq, afacts = fn.alpha(goals or [], facts)
        if kind in ("P1", "P2") or not goals:
            areq = what
            if alpha_terms:
                areq = alpha_tag + "(" + fn.alpha(alpha_terms, [])[0].replace("<=0", "").replace(" & ", ", ") + ")"
        rk = (b.npath, kind, areq)
        k_dup = rev_seen.get(rk, 0)
        rev_seen[rk] = k_dup + 1
        cands = [e for e in reviewed if (e["fn"], e["kind"], e["req"]) == rk]
        if not cands and kind == "P1":
            # an explicit panic is identified by its message: when the statement was moved into another function (a
            # shared helper), the review of that message still applies provided its premises hold where it now lives
            moved = [e for e in reviewed if e["kind"] == "P1" and e["req"] == areq and id(e) not in used_reviews and
                     not any(x.npath == e["fn"] and any(panic_message(Fn(x), t2).strip('"')[:60] in areq
                                                          for _i, t2 in x.calls() if t2.get("target") is None)
                             for x in [cg.nodes[pp] for pp in R] if x.npath == e["fn"])]
            cands = moved[:1]
            k_dup = 0
        if not cands and kind in ("P3", "P4"):
            # a review that rests on what a callee returns (and carries a machine-checked premise about that callee)
            # applies wherever the same requirement on that callee's result is met again — a helper the code was moved to
            cands = [e for e in reviewed if e.get("callee") and e["kind"] == kind and e["req"] == areq and
                     ("ret(%s)" % e["callee"]) in what and e.get("premises")]
            cands = cands[:1]
            k_dup = 0
        adefs = fn.alpha_defs(goals) if goals and kind in ("P3", "P4") else {}
        if os.environ.get("C18_DUMP"):
            dump.append({"fn": b.npath, "kind": kind, "req": areq, "facts": afacts, "line": line, "what": what, "defs": adefs})
        if k_dup < len(cands):
            ent = cands[k_dup]
            used_reviews.add(id(ent))
            missing = [f for f in ent.get("facts", []) if f not in afacts]
            changed = {k_: (v_, adefs.get(k_)) for k_, v_ in (ent.get("defs") or {}).items() if adefs.get(k_) != v_}
            if missing:
                why_fail = "%s; reviewed, but the guard(s) the review relied on are no longer in force at the site: %s" % (why_fail, missing)
            elif changed:
                why_fail = "%s; reviewed, but a variable the review reasons about is now assigned differently: %s" % (
                    why_fail, "; ".join("%s was %s, is %s" % (k_, a_, b_) for k_, (a_, b_) in sorted(changed.items())))
            else:
                ok, msg = c18_premises.check(ent, prog, cg, b, R)
                if ok:
                    counts["reviewed"] += 1
                    ctx.ob(kind, inst, "reviewed", ctx.where(b, line), "reviewed: %s [re-checked: %d guard fact(s) in force; %s]" % (
                        ent["reason"], len(ent.get("facts", [])), msg))
                    return
                why_fail = "%s; reviewed, but a premise of the review no longer holds (%s)" % (why_fail, msg)
        counts["violation"] += 1
        ctx.ob(kind, inst, False, ctx.where(b, line), why_fail)

    for p in sorted(R):
        fn = fns[p]
        b = fn.b
        bnd = fn.bnd
        ctx.fn(b)
        for i in sorted(bnd.cfg.live):
            blk = b.blocks[i]
            if blk["cleanup"]:
                continue
            t = blk["term"]
            if t["k"] == "assert":
                m = t["msg"]
                if m["k"] in ("MisalignedPointerDereference", "NullPointerDereference"):
                    continue     # debug-build checks on pointers the compiler itself derived from references
                if m["k"] == "BoundsCheck":
                    idx, ln = bnd.lin_op(m["index"]), bnd.lin_op(m["len"])
                    settle(fn, "P3", "%s<%s" % (fn.show(idx), fn.show(ln)), t["line"], i, [idx.add(ln, -1).add(Lin({}, 1))],
                           why_fail="array/slice index at line %d is not proved to be within bounds" % t["line"])
                elif m["k"] == "Overflow":
                    op = m["op"]
                    l, r = m["l"], m["r"]
                    ll, rl = bnd.lin_op(l), bnd.lin_op(r)
                    lty = (l.get("ty") or (l.get("place") or {}).get("ty") or "")
                    sym = {"Add": "+", "Sub": "-", "Mul": "*"}.get(op, op)
                    what = "%s%s%s" % (fn.show(ll), sym, fn.show(rl))
                    loc = l["place"]["l"] if l["k"] in ("copy", "move") and not l["place"]["p"] else None
                    small = r["k"] == "const" and r.get("int") is not None and abs(r["int"]) <= 8
                    if op == "Sub" and lty in ("usize", "u64", "u32", "u16", "u8"):
                        if loc is not None and small and fn.is_counter(loc) and False:
                            pass
                        settle(fn, "P4", what, t["line"], i, [rl.add(ll, -1)],
                               why_fail="`%s` at line %d can underflow: no dominating guard shows %s >= %s" % (
                                   what, t["line"], fn.show(ll), fn.show(rl)))
                    elif op in ("Add", "Sub") and small and loc is not None and fn.is_counter(loc):
                        settle(fn, "P4", what, t["line"], i, cls="counter",
                               detail="`%s` changes only by small constants; bounded by the number of loop iterations (A1)" % fn.lname(loc))
                    elif op == "Add" and small and lty in ("usize", "u64") and len_bounded(fn, ll, i):
                        settle(fn, "P4", what, t["line"], i, cls="auto",
                               detail="`%s` is bounded by a collection length plus a constant at this point (%s), and lengths "
                                      "never exceed isize::MAX, so adding %d cannot wrap" % (fn.show(ll), len_bounded(fn, ll, i), r["int"]))
                    elif op == "Add" and small and lty in ("usize", "u64"):
                        settle(fn, "P4", what, t["line"], i, cls="A1", detail="position/length plus a small constant (A1)")
                    elif op in ("Add", "Sub") and small and lty in ("i32", "i64", "isize"):
                        settle(fn, "P4", what, t["line"], i, cls="A1", detail="signed counter plus/minus a small constant (A1)")
                    elif op == "Add" and lty in ("usize", "u64") and len_bounded(fn, ll.add(rl), i):
                        settle(fn, "P4", what, t["line"], i, cls="auto",
                               detail="the sum is bounded by a collection length plus a constant at this point (%s); lengths never "
                                      "exceed isize::MAX, so it cannot wrap" % len_bounded(fn, ll.add(rl), i))
                    else:
                        settle(fn, "P4", what, t["line"], i, None, why_fail="`%s` at line %d can overflow" % (what, t["line"]),
                               alpha_terms=[ll, rl], alpha_tag=op.lower())
                else:
                    settle(fn, "P4", m["k"], t["line"], i, None, why_fail="%s possible at line %d" % (m["k"], t["line"]))
                continue
            if t["k"] != "call":
                continue
            nm = callee_name(t)
            last = nm.split("::")[-1]
            if t["target"] is None:
                # identify the panic by its message constant when there is one
                msg = panic_message(fn, t)
                msg = msg.strip('"')[:60]
                settle(fn, "P1", "panic(%s)" % msg, t["line"], i, None,
                       why_fail="explicit panic reachable from a parser entry point at line %d (%s)" % (t["line"], msg))
                continue
            if any(nm.endswith(x) for x in UNWRAPS) and ("Option" in nm or "Result" in nm):
                settle(fn, "P2", last, t["line"], i, None,
                       why_fail="%s() at line %d on a value not known to be Some/Ok" % (last, t["line"]))
                continue
            if nm.endswith("::index") or nm.endswith("::index_mut"):
                pa = (t["callee"].get("path_args") or "")
                recv = t["args"][0]
                key, _ = bnd.root_key(recv["place"]) if recv["k"] in ("copy", "move") else ("?", set())
                ln = Lin({("len", key): 1})
                idxop = t["args"][1]
                self_ty = pa.split(" as ")[0].lstrip("<")
                is_str = self_ty in ("str", "std::string::String")
                if "HashMap" in self_ty or "BTreeMap" in self_ty:
                    settle(fn, "P3", "map[%s]" % key, t["line"], i, None, why_fail="map index at line %d panics on a missing key" % t["line"])
                    continue
                if "Range" in pa:
                    rng = None
                    if idxop["k"] in ("copy", "move") and not idxop["place"]["p"]:
                        sd = bnd.single_def(idxop["place"]["l"])
                        if sd and sd[2]["k"] == "aggregate":
                            rng = sd[2]
                    goals = None
                    what = "%s[..]" % fn._key(key)
                    if rng is not None:
                        adt = rng.get("adt", "")
                        ops = [bnd.lin_op(o) for o in rng["ops"]]
                        if adt.endswith("ops::Range") and len(ops) == 2:
                            goals = [ops[0].add(ops[1], -1), ops[1].add(ln, -1)]
                            what = "%s[%s..%s]" % (fn._key(key), fn.show(ops[0]), fn.show(ops[1]))
                        elif adt.endswith("RangeFrom") and len(ops) == 1:
                            goals = [ops[0].add(ln, -1)]
                            what = "%s[%s..]" % (fn._key(key), fn.show(ops[0]))
                        elif adt.endswith("RangeTo") and len(ops) == 1:
                            goals = [ops[0].add(ln, -1)]
                            what = "%s[..%s]" % (fn._key(key), fn.show(ops[0]))
                        elif adt.endswith("RangeFull"):
                            goals = []
                    elif "RangeFull" in pa:
                        goals = []
                    at = None
                    if is_str and goals:
                        at = goals
                        goals = None     # byte ranges on strings also need char boundaries
                    settle(fn, "P3", what, t["line"], i, goals,
                           why_fail="slice %s at line %d: start <= end <= len is not proved%s" % (
                               what, t["line"], " (string slice: char boundaries)" if is_str else ""),
                           alpha_terms=at, alpha_tag="strslice")
                else:
                    idx = bnd.lin_op(idxop)
                    settle(fn, "P3", "%s[%s]" % (fn._key(key), fn.show(idx)), t["line"], i, [idx.add(ln, -1).add(Lin({}, 1))],
                           why_fail="index %s[%s] at line %d is not proved to be < len" % (fn._key(key), fn.show(idx), t["line"]))
                continue
            if any(x in nm for x in DENY):
                goals = None
                what = last
                if last in ("remove", "insert") and "Vec" in nm and len(t["args"]) >= 2 and t["args"][0]["k"] in ("copy", "move"):
                    key, _ = bnd.root_key(t["args"][0]["place"])
                    ln = Lin({("len", key): 1})
                    idx = bnd.lin_op(t["args"][1])
                    goals = [idx.add(ln, -1).add(Lin({}, 1 if last == "remove" else 0))]
                    what = "%s.%s(%s)" % (fn._key(key), last, fn.show(idx))
                    if last == "remove" and not all(fn.bnd.prove(g, i, "term") for g in goals):
                        import lockstep
                        how = lockstep.in_loop(fn, i, key, t["args"][1])
                        if how is None and t["args"][1]["k"] == "const" and t["args"][1].get("int") is not None:
                            how = lockstep.after_loop(fn, i, key, t["args"][1]["int"])
                        if how is not None:
                            settle(fn, "P5", what, t["line"], i, cls="auto", detail=how)
                            continue
                if last in ("windows", "chunks", "chunks_exact", "rchunks") and len(t["args"]) == 2 and t["args"][1]["k"] == "const" \
                        and (t["args"][1].get("int") or 0) >= 1:
                    goals = []          # panics only for a size of 0; the size is the literal %d here
                    what = "%s(%d)" % (last, t["args"][1]["int"])
                settle(fn, "P5", what, t["line"], i, goals,
                       why_fail="%s at line %d can panic: argument not proved valid" % (what, t["line"]))
        # ---- loops ---------------------------------------------------------
        for head, body_blocks in sorted(bnd.cfg.loops().items()):
            ok, how = loop_terminates(fn, head, body_blocks)
            line = b.blocks[head]["term"]["line"]
            base_key = "%s:L:loop" % b.npath
            n = seen_keys.get(base_key, 0)
            seen_keys[base_key] = n + 1
            inst = base_key if n == 0 else "%s#%d" % (base_key, n)
            if ok:
                ctx.ob("L", inst, True, ctx.where(b, line), how)
                continue
            done = False
            rk = (b.npath, "L", "loop")
            k_dup = rev_seen.get(rk, 0)
            rev_seen[rk] = k_dup + 1
            cands = [e for e in reviewed if (e["fn"], e["kind"], e["req"]) == rk]
            if os.environ.get("C18_DUMP"):
                dump.append({"fn": b.npath, "kind": "L", "req": "loop", "facts": [], "line": line, "what": "loop"})
            if k_dup < len(cands):
                ent = cands[k_dup]
                used_reviews.add(id(ent))
                okp, msg = c18_premises.check(ent, prog, cg, b, R)
                okp2, msg2 = loop_premise(fn, head, body_blocks, ent)
                if okp and okp2:
                    counts["reviewed"] += 1
                    ctx.ob("L", inst, "reviewed", ctx.where(b, line), "reviewed: %s [re-checked: %s; %s]" % (ent["reason"], msg2, msg))
                    done = True
                else:
                    how += "; reviewed, but a premise no longer holds (%s)" % (msg if not okp else msg2)
            if not done:
                counts["violation"] += 1
                ctx.ob("L", inst, False, ctx.where(b, line), "loop at line %d: %s" % (line, how))
    if os.environ.get("C18_DUMP"):
        with open(os.environ["C18_DUMP"], "w") as f:
            json.dump(dump, f, indent=1)
    ctx.extra["site_classes"] = counts
    stale = [e for e in reviewed if id(e) not in used_reviews]
    if stale:
        ctx.note("reviewed entries matching no open site on this tree (they suppress nothing): %s" % [
            (e["fn"], e["kind"], e.get("req")) for e in stale])
    ctx.floor("sites", sum(counts.values()), 100, "panic sites in parser-reachable code")


def inc_form(bnd, rv):
    """`x + c` / `x - c` as assigned by one statement, in the checked (dev) or plain (release) MIR form:
    returns (local x after following copies, signed constant) or None."""
    binop = None
    if rv["k"] == "binop" and rv["op"] in ("Add", "Sub"):
        binop = rv
    elif rv["k"] == "use" and rv["op"]["k"] in ("copy", "move"):
        pl = rv["op"]["place"]
        if len(pl["p"]) == 1 and isinstance(pl["p"][0], dict) and pl["p"][0].get("field") == "0":
            sd = bnd.single_def(pl["l"])
            if sd and sd[2]["k"] == "binop" and sd[2]["op"] in ("AddWithOverflow", "SubWithOverflow"):
                binop = sd[2]
    if binop is None:
        return None
    l2, r2 = binop["l"], binop["r"]
    if r2["k"] != "const" or r2.get("int") is None or l2["k"] not in ("copy", "move") or l2["place"]["p"]:
        return None
    c = r2["int"] if binop["op"].startswith("Add") else -r2["int"]
    return root_local(bnd, l2["place"]["l"]), c



def root_local(bnd, l):
    """Follow singly-assigned copies back to the local they copy."""
    sd = bnd.single_def(l)
    n = 0
    while sd and sd[2]["k"] == "use" and sd[2]["op"]["k"] in ("copy", "move") and not sd[2]["op"]["place"]["p"] and n < 8:
        l = sd[2]["op"]["place"]["l"]
        sd = bnd.single_def(l)
        n += 1
    return l


def skip_ahead(fn, c, j, at_bb, blocks):
    """`c = j` where j was initialised as c + k (k >= 1) at a point dominating the assignment, is only incremented
    afterwards, and c is not modified between that initialisation and the assignment: then j > c."""
    bnd, b = fn.bnd, fn.b
    inits = []
    for bb, k, rv in bnd.defs.get(j, []):
        f = inc_form(bnd, rv)
        if f is None or f[1] < 1:
            return False
        if f[0] == c:
            inits.append((bb, k))
        elif f[0] != j:
            return False
    if len(inits) != 1:
        return False
    ib, ik = inits[0]
    if not bnd.cfg.dom(ib, at_bb) or ib == at_bb:
        return False
    # c not modified on any path from the initialisation to the assignment (without passing the initialisation again)
    succ, pred = bnd.cfg.succ, bnd.cfg.pred
    fwd, stack = set(), list(succ[ib])
    while stack:
        x = stack.pop()
        if x in fwd or x == ib:
            continue
        fwd.add(x)
        stack.extend(succ[x])
    bwd, stack = set(), [at_bb]
    while stack:
        x = stack.pop()
        if x in bwd or x == ib:
            continue
        bwd.add(x)
        stack.extend(pred[x])
    region = fwd & bwd
    for mb, mk in bnd._modifiers(c):
        if mb in region and mb != at_bb:
            return False
    return True


def loop_premise(fn, head, blocks, ent):
    """Premise of a reviewed loop: the loop still has a counter compared with a loop-invariant bound in an exit test,
    and every assignment to that counter inside the loop is `+= const>0` or a copy of another local."""
    b, bnd = fn.b, fn.bnd
    for x in blocks:
        for s2 in bnd.cfg.succ[x]:
            if s2 in blocks:
                continue
            t = b.blocks[x]["term"]
            if t["k"] != "switch" or t["discr"]["k"] not in ("copy", "move"):
                continue
            sd = bnd.single_def(t["discr"]["place"]["l"])
            if sd and sd[2]["k"] == "binop" and sd[2]["op"] in ("Lt", "Le", "Gt", "Ge", "Ne"):
                return True, "exit test on a counter still present"
            if sd and sd[2]["k"] in ("call", "unop"):
                return True, "exit test still present"
    # structural walk (`while let` over a linked structure): exits on a variant test
    for x in blocks:
        t = b.blocks[x]["term"]
        if t["k"] == "switch" and any(s2 not in blocks for s2 in bnd.cfg.succ[x]):
            return True, "exit on a variant / value test still present"
    return False, "the loop has no exit test any more"


def loop_terminates(fn, head, blocks):
    """(ok, explanation)"""
    b, bnd = fn.b, fn.bnd
    exits = []
    for x in blocks:
        for s in bnd.cfg.succ[x]:
            if s not in blocks:
                exits.append((x, s))
    for x in blocks:
        t = b.blocks[x]["term"]
        if t["k"] == "call":
            nm = callee_name(t)
            decl = t["callee"].get("path") or ""
            if decl.endswith("Iterator::next") or (nm.endswith("::next") and "iter" in nm.lower()):
                # the loop must leave when next() yields None: next's block is in the loop and some exit follows
                return True, "driven by an iterator (Iterator::next)"
    for x, s in exits:
        t = b.blocks[x]["term"]
        if t["k"] != "switch" or t["discr"]["k"] not in ("copy", "move"):
            continue
        sd = bnd.single_def(t["discr"]["place"]["l"])
        if not sd or sd[2]["k"] != "binop" or sd[2]["op"] not in ("Lt", "Le", "Gt", "Ge", "Ne"):
            continue
        rv = sd[2]
        for ctr_op, bound_op, up in ((rv["l"], rv["r"], rv["op"] in ("Lt", "Le", "Ne")), (rv["r"], rv["l"], rv["op"] in ("Gt", "Ge"))):
            if ctr_op["k"] not in ("copy", "move") or ctr_op["place"]["p"]:
                continue
            c = ctr_op["place"]["l"]
            sdc = bnd.single_def(c)
            while sdc and sdc[2]["k"] == "use" and sdc[2]["op"]["k"] in ("copy", "move") and not sdc[2]["op"]["place"]["p"]:
                c = sdc[2]["op"]["place"]["l"]
                sdc = bnd.single_def(c)
            defs_in = [(bb, k, r) for bb, k, r in bnd.defs.get(c, []) if bb in blocks]
            if not defs_in:
                continue
            bl = bnd.lin_op(bound_op)
            inv = True
            for base in bl.bases():
                for r in bnd.base_roots(base):
                    if any(bb in blocks for bb, k in bnd._modifiers(r)):
                        inv = False
            if not inv:
                continue
            good = True
            inc_blocks = set()
            for bb, k, r in defs_in:
                step = None
                f = inc_form(bnd, r)
                if f is not None and f[0] == c:
                    step = f[1]
                elif r["k"] == "use" and r["op"]["k"] in ("copy", "move"):
                    pl = r["op"]["place"]
                    if pl["p"]:
                        pass
                    elif not pl["p"]:
                        # c = j : accepted when j >= c is provable at that point (the counter never moves backwards)
                        jl = pl["l"]
                        sdj = bnd.single_def(jl)
                        while sdj and sdj[2]["k"] == "use" and sdj[2]["op"]["k"] in ("copy", "move") and not sdj[2]["op"]["place"]["p"]:
                            jl = sdj[2]["op"]["place"]["l"]
                            sdj = bnd.single_def(jl)
                        pl = {"l": jl, "p": []}
                        j = bnd.lin_local(pl["l"])
                        goal = Lin({("L", c): 1}).add(j, -1) if up else j.add(Lin({("L", c): 1}), -1)
                        if bnd.prove(goal, bb, k if isinstance(k, int) else "term"):
                            step = 0
                        elif up and skip_ahead(fn, c, pl["l"], bb, blocks):
                            step = 0
                elif r["k"] == "call" and up and getattr(fn, "summaries", None) is not None:
                    # c = f(.., c, ..) where f is proved to return at least that argument: the counter never moves back
                    tcall = r["t"]
                    sm = fn.summaries(tcall["callee"].get("resolved") or tcall["callee"].get("path") or "")
                    for kpar in (sm or {}).get("ge_param", []):
                        a = tcall["args"][kpar - 1] if kpar - 1 < len(tcall["args"]) else None
                        if a and a["k"] in ("copy", "move") and not a["place"]["p"] and root_local(bnd, a["place"]["l"]) == c:
                            step = 0
                if step is None or (up and step < 0) or ((not up) and step > 0):
                    good = False
                elif step != 0:
                    inc_blocks.add(bb)
            if not good or not inc_blocks:
                continue
            sub = [[s2 for s2 in bnd.cfg.succ[i] if s2 in blocks and s2 not in inc_blocks] if i in blocks else []
                   for i in range(len(b.blocks))]
            r = reachable(sub, [s2 for s2 in bnd.cfg.succ[head] if s2 in blocks and s2 not in inc_blocks])
            if head in r:
                continue
            return True, "counter `%s` moves strictly towards the loop-invariant bound on every iteration" % fn.lname(c)
    sd_ok, sd_why = structural_descent(fn, head, blocks, exits)
    if sd_ok:
        return True, sd_why
    return False, "no iterator and no counter that provably advances towards a loop-invariant bound on every path around the loop"


_TREE_TYPES = ("unifiable::Unifiable",)     # owned trees: Box / Vec / String fields only, no Rc, RefCell or raw pointer


def _rooted_in_field_of(bnd, l, c, blocks, seen=None, through_field=False):
    """Is local l, as defined inside the loop, (a reference to / the moved value of) something reached from the
    cursor c through at least one field projection — i.e. a strict part of what c denoted?"""
    seen = seen or set()
    if l in seen:
        return False
    seen = seen | {l}
    ds = [(bb, k, rv) for bb, k, rv in bnd.defs.get(l, []) if bb in blocks]
    if not ds:
        return False
    for bb, k, rv in ds:
        pl = None
        if rv.get("k") == "use" and rv["op"]["k"] in ("copy", "move"):
            pl = rv["op"]["place"]
        elif rv.get("k") in ("ref", "rawptr"):
            pl = rv["place"]
        elif rv.get("k") == "cast" and rv["op"]["k"] in ("copy", "move"):
            pl = rv["op"]["place"]
        elif rv.get("k") == "call" and rv["t"].get("args"):
            # `boxed.as_mut()`, `&mut *boxed` spelled as a Deref / AsMut call: the value behind the same box
            nm_ = callee_name(rv["t"])
            a0 = rv["t"]["args"][0]
            if nm_.split("::")[-1] in ("as_mut", "as_ref", "deref", "deref_mut", "borrow", "borrow_mut") and \
                    ("Box<" in nm_ or "boxed::Box" in (rv["t"]["callee"].get("path_args") or "")) and a0["k"] in ("copy", "move"):
                pl = a0["place"]
        if pl is None:
            return False
        fld = through_field or any(isinstance(x, dict) and "field" in x and "SLinkedList" in str(x.get("of")) or
                                   (isinstance(x, dict) and "field" in x and any(t_ in str(x.get("of")) for t_ in _TREE_TYPES))
                                   for x in pl["p"])
        if pl["l"] == c:
            if not fld:
                return False
            continue
        if not _rooted_in_field_of(bnd, pl["l"], c, blocks, seen, fld):
            return False
    return True


def structural_descent(fn, head, blocks, exits):
    """`while let Node{next, ..} = cursor { ..; cursor = next }` over an owned tree: an exit tests the variant of what
    the cursor denotes, and on every path round the loop the cursor is replaced by a strict part of what it denoted
    (reached through a field). The tree is finite (Box / Vec fields only), so the walk ends."""
    b, bnd = fn.b, fn.bnd
    cands = set()
    for x, s_ in exits:
        t = b.blocks[x]["term"]
        if t["k"] != "switch" or t["discr"]["k"] not in ("copy", "move"):
            continue
        sd = bnd.single_def(t["discr"]["place"]["l"])
        if sd and sd[2].get("k") == "discriminant":
            pl = sd[2]["place"]
            ty = pl.get("ty", "")
            if ty in _TREE_TYPES and (not pl["p"] or pl["p"] == ["deref"]):
                cands.add(pl["l"])
    for c in sorted(cands):
        defs_in = [(bb, k) for bb, k, rv in bnd.defs.get(c, []) if bb in blocks]
        if not defs_in:
            continue
        if not _rooted_in_field_of(bnd, c, c, blocks, seen=set(), through_field=False) and not all(
                _def_descends(bnd, c, bb, k, blocks) for bb, k in defs_in):
            continue
        inc_blocks = {bb for bb, k in defs_in}
        sub = [[s2 for s2 in bnd.cfg.succ[i] if s2 in blocks and s2 not in inc_blocks] if i in blocks else []
               for i in range(len(b.blocks))]
        r = reachable(sub, [s2 for s2 in bnd.cfg.succ[head] if s2 in blocks and s2 not in inc_blocks])
        if head in r or head in inc_blocks and False:
            continue
        return True, "cursor `%s` over an owned tree is replaced by one of its own parts on every iteration; the loop leaves on its variant" % fn.lname(c)
    return False, ""


def _def_descends(bnd, c, bb, k, blocks):
    for b2, k2, rv in bnd.defs.get(c, []):
        if (b2, k2) != (bb, k):
            continue
        pl = None
        if rv.get("k") == "use" and rv["op"]["k"] in ("copy", "move"):
            pl = rv["op"]["place"]
        elif rv.get("k") in ("ref", "rawptr"):
            pl = rv["place"]
        if pl is None:
            return False
        fld = any(isinstance(x, dict) and "field" in x and any(t_ in str(x.get("of")) for t_ in _TREE_TYPES) for x in pl["p"])
        if pl["l"] == c:
            return fld
        return _rooted_in_field_of(bnd, pl["l"], c, blocks, {c}, fld)
    return False
