"""C19 — canonical source text parses and prints back unchanged (one structural clause only)."""
from sym import Walker, strip, show, mentions
import inline

EXPLANATION = ("One structural necessary condition of C19, decided over the CFG paths of the goal tokenizer: the passes that "
               "group tokens (group_and_tokens, group_or_tokens) and the pass that turns the token tree into a goal "
               "(token_tree_to_goal) agree on token kinds — every kind of child the grouping passes can put under an And or "
               "an Or token has a handler in the And / Or arm of token_tree_to_goal that turns it into an operand. If a kind "
               "is grouped but not handled, the sub-goals under it silently disappear from the parsed goal (`a, b; c` parsed "
               "as `c`), so the printed goal cannot reproduce the text. Also: the symbol each Infix variant is recognised by "
               "is the symbol its Display writes; and the number arms of Display for Unifiable hand the stored number itself to the "
               "formatter. Nothing else of C19 (round trips of terms, lists, facts; how a number is spelled and read back) is decided.")
RULES = ("R1 writer/reader agreement on token kinds: kinds pushed into a list that becomes an And / Or branch token ⊆ kinds the "
         "And / Or arm of token_tree_to_goal converts into operands; R2 Display(Infix::V) writes the symbol the scanners "
         "recognise for V; R3 on every path of the SInteger / SFloat arm of Display(Unifiable) the value formatted is the stored payload, "
         "not a value computed from it")
TRUSTED = ["rustc nightly MIR construction", "bounded unrolling: each loop body is walked up to 2 times per path (kinds are collected as a union over paths)"]

KINDS = ("Subgoal", "And", "Or", "Group", "Comma", "Semicolon", "LParen", "RParen", "Complex", "LinkedList", "Empty")


def _child_of(v):
    """The innermost iterator item (a token taken from the children being scanned) a value is derived from."""
    found = []

    def pred(t):
        if t[0] == "field" and t[2] == "Some.0" and strip(t[1])[0] == "call" and strip(t[1])[1].endswith("::next"):
            found.append(t)
        return False
    mentions(v, pred)
    v0 = strip(v)
    if v0[0] == "field" and v0[2] == "Some.0" and strip(v0[1])[0] == "call" and strip(v0[1])[1].endswith("::next"):
        found.append(v0)
    if found:
        return found[-1]
    lk = None
    try:
        from sym import lookup
        lk = lookup(v)
    except Exception:
        lk = None
    return strip(v) if lk is not None else None


def _kinds_established(path, child, upto):
    """Token kinds the path has established for `child` (through get_type(child) == K tests or pattern matches)."""
    out = set()
    for e in path.events[:upto]:
        if e["k"] != "branch":
            continue
        c, v = e["cond"], e["value"]
        if c[0] == "call" and c[1].endswith("::eq") and v is True and len(c[2]) == 2:
            for a, b in ((c[2][0], c[2][1]), (c[2][1], c[2][0])):
                a0, b0 = strip(a), strip(b)
                if b0[0] == "agg" and b0[1].endswith("TokenType") and a0[0] == "call" and a0[1].endswith("get_type") and \
                        mentions(a0, lambda t: t == child):
                    out.add(b0[2])
        elif c[0] == "call" and c[1].endswith("::contains") and v is True and len(c[2]) == 2:
            # `[TokenType::Group, TokenType::And].contains(&get_type(child))`
            arr, x = strip(c[2][0]), strip(c[2][1])
            if x[0] == "call" and x[1].endswith("get_type") and mentions(x, lambda t: t == child):
                def el(t):
                    if t[0] == "agg" and t[1].endswith("TokenType") and t[2] in KINDS:
                        out.add(t[2])
                    return False
                mentions(arr, el)
        elif c[0] == "variant" and isinstance(v, str) and v in KINDS:
            x = strip(c[1])
            if x[0] == "call" and x[1].endswith("get_type") and mentions(x, lambda t: t == child):
                out.add(v)
            elif x[0] == "field" and x[2].endswith("token_type") and mentions(x, lambda t: t == child):
                out.add(v)
    return out


def _const_kind(t):
    t = strip(t)
    if t[0] == "agg" and t[1].endswith("TokenType") and t[2] in KINDS:
        return t[2]
    return None


def run(ctx):
    prog = ctx.prog
    GA = prog.one("tokenizer::group_and_tokens")
    GO = prog.one("tokenizer::group_or_tokens")
    TT = prog.one("tokenizer::token_tree_to_goal")
    if None in (GA, GO, TT):
        ctx.missing("R1", "group_and_tokens / group_or_tokens / token_tree_to_goal")
        return
    # the three passes are the subjects of the rule: they are never walked into one another
    pol = inline.helpers(prog, keep=("group_and_tokens", "group_or_tokens", "group_tokens", "token_tree_to_goal", "make_branch_token",
                                     "parse_subgoal"))
    writer = {}
    for G in (GA, GO):
        ctx.fn(G)
        ps = Walker(G, max_visits=2, max_paths=400000, inline=pol).paths()
        ctx.stats["paths_walked"] += len(ps)
        list_kind = {}
        for p in ps:
            for e in p.calls():
                if e["callee"].endswith("make_branch_token") and len(e["args"]) == 2:
                    k = _const_kind(e["args"][0])
                    if k:
                        list_kind.setdefault(strip(e["args"][1]), set()).add(k)
        # a list built as `children.into_iter().filter(|c| matches!(c.get_type(), A | B)).collect()`
        import folds
        for L, ks in list(list_kind.items()):
            L0 = strip(L)
            if L0[0] == "call" and L0[1].endswith("::collect") and L0[2]:
                x = strip(L0[2][0])
                if x[0] == "call" and x[1].endswith("::filter") and len(x[2]) == 2 and strip(x[2][1])[0] == "closure":
                    clo = strip(x[2][1])
                    cb = folds.body_of(prog, clo[1])
                    if cb is not None:
                        for cp in Walker(cb, max_visits=2, inline=pol).paths(init_env={1: clo}):
                            r = strip(cp.ret) if cp.end == "return" else None
                            if r is not None and r[0] == "const" and r[3] == 1:
                                item = ("param", 2, cb.locals[2].get("name") or "")
                                got = _kinds_established(cp, item, len(cp.events))
                                for dc, dv, _bb in cp.decisions:
                                    if dc[0] == "variant" and isinstance(dv, str) and dv in KINDS and mentions(dc[1], lambda t: t == item):
                                        got.add(dv)
                                for k in ks:
                                    writer.setdefault(k, set()).update(got)
        for p in ps:
            for i, e in enumerate(p.events):
                if e["k"] != "call" or not e["callee"].endswith("::push") or len(e["args"]) != 2:
                    continue
                L = strip(e["args"][0])
                ks = list_kind.get(L)
                if not ks:
                    continue
                v = e["args"][1]
                made = None
                v0 = strip(v)
                if v0[0] == "call" and v0[1].endswith("make_branch_token"):
                    made = _const_kind(v0[2][0])
                child = _child_of(v)
                kinds = {made} if made else (_kinds_established(p, child, i) if child is not None else set())
                for k in ks:
                    writer.setdefault(k, set()).update(kinds)
    ctx.fn(TT)
    reader = {}
    ps = Walker(TT, max_visits=2, max_paths=400000, inline=pol).paths()
    ctx.stats["paths_walked"] += len(ps)
    tok = ("param", 1, TT.locals[1].get("name") or "")
    for p in ps:
        own = None
        for e in p.events:
            if e["k"] != "branch":
                continue
            c, v = e["cond"], e["value"]
            if c[0] == "call" and c[1].endswith("::eq") and v is True and len(c[2]) == 2:
                for a, b in ((c[2][0], c[2][1]), (c[2][1], c[2][0])):
                    a0, b0 = strip(a), strip(b)
                    if b0[0] == "agg" and b0[1].endswith("TokenType") and a0 == ("field", tok, "Branch.token_type"):
                        own = b0[2]
            elif c[0] == "variant" and strip(c[1]) == ("field", tok, "Branch.token_type") and isinstance(v, str) and v in KINDS:
                own = v
        if own not in ("And", "Or"):
            continue
        for i, e in enumerate(p.events):
            if e["k"] == "call" and e["callee"].endswith("::push") and len(e["args"]) == 2:
                child = _child_of(e["args"][1])
                if child is not None:
                    reader.setdefault(own, set()).update(_kinds_established(p, child, i))
    for K in ("And", "Or"):
        w, r = writer.get(K, set()), reader.get(K, set())
        ok = bool(w) and w <= r
        ctx.ob("R1", "kinds(%s)" % K, ok, ctx.where(TT),
               "the grouping passes put children of kinds %s under an %s token; token_tree_to_goal turns kinds %s into operands%s" % (
                   sorted(w), K, sorted(r), "" if ok else ": children of kind %s are dropped from the goal" % sorted(w - r)))
    # ---- R2: Display for Infix writes the recognised symbol -------------------------------------------------------
    import infixscan
    sym2v = {}
    for nm in ("infix::check_infix", "infix::check_arithmetic_infix"):
        b = prog.one(nm)
        if b is None:
            ctx.missing("R2", nm)
            continue
        ctx.fn(b)
        for s_, vs in infixscan.symbols(b, inline=pol, ctx=ctx).items():
            for v in vs:
                sym2v.setdefault(v, set()).add(s_)
    D = next((b for b in prog.lib_bodies() if b.path.startswith("<infix::Infix as std::fmt::Display>::fmt")), None)
    if D is None:
        ctx.missing("R2", "Display for Infix")
        return
    ctx.fn(D)
    shown = {}
    me = ("param", 1, D.locals[1].get("name") or "")
    for p in Walker(D, max_visits=2, inline=pol).paths():
        if p.end != "return":
            continue
        vs = p.refine.get(me)
        if vs is None or len(vs) != 1:
            continue
        v = list(vs)[0]
        lits = set()
        for e in p.calls():
            for a in e["args"]:
                def pred(t):
                    if t[0] == "const" and isinstance(t[2], str) and t[2].startswith('"'):
                        lits.add(t[2].strip('"').strip())
                    return False
                mentions(a, pred)
        if p.ret is not None:
            pass
        shown.setdefault(v, set()).update(x for x in lits if x)
    n = 0
    for v, syms in sorted(sym2v.items()):
        n += 1
        sh = shown.get(v, set())
        ok = bool(sh) and sh <= syms          # what is printed for V is (one of) the spelling(s) recognised as V
        ctx.ob("R2", "symbol(%s)" % v, ok, ctx.where(D), "recognised as %s, displayed as %s" % (sorted(syms), sorted(sh)))
    ctx.floor("R2", n, 8, "infix variants recognised by the scanners")

    # ---- R3: the number arms of Display(Unifiable) hand the stored number itself to the formatter --------------------
    # (necessary for "printing reproduces the text / reparsing gives an equal value": a rounded, scaled or truncated copy
    # prints another number. How the standard formatter spells an i64 / f64 is not decided here.)
    U = next((b for b in prog.lib_bodies() if b.path.startswith("<unifiable::Unifiable as std::fmt::Display>::fmt")), None)
    if U is None:
        ctx.ob("R3", "numbers-printed-as-stored", True, "", "not evaluated: no Display for Unifiable in this tree")
        return
    ctx.fn(U)
    from sym import unclone
    me = ("param", 1, U.locals[1].get("name") or "")
    NUM = ("SInteger", "SFloat")
    verdict = {}
    for p in Walker(U, max_visits=2, inline=pol).paths():
        if p.end != "return":
            continue
        vs = p.refine.get(me)
        if vs is None or len(vs) != 1 or list(vs)[0] not in NUM:
            continue
        v = list(vs)[0]
        payload = ("field", me, v + ".0")
        given = []
        for e in p.calls():
            c = e["callee"]
            if e["args"] and (("Argument" in c and "::new_" in c) or c.endswith("Display>::fmt") or c.endswith("::to_string")):
                a = unclone(e["args"][0])
                if a == payload or mentions(a, lambda t: t == payload):
                    given.append(a)
        st = verdict.setdefault(v, {"n": 0, "bad": []})
        st["n"] += 1
        st["bad"] += [show(a)[:120] for a in given if a != payload]
        if not given:
            st.setdefault("unseen", True)
    n = 0
    for v in NUM:
        st = verdict.get(v)
        if st is None or st.get("unseen"):
            ctx.ob("R3", "numbers-printed-as-stored(%s)" % v, True, ctx.where(U),
                   "not evaluated: no path of the %s arm hands a value derived from its number to a formatter call" % v)
            continue
        n += 1
        ctx.ob("R3", "numbers-printed-as-stored(%s)" % v, not st["bad"], ctx.where(U),
               "the formatter is given %s, a value computed from the stored number, not the number itself" % ", ".join(sorted(set(st["bad"])))
               if st["bad"] else "%d path(s): the stored number itself is what is formatted" % st["n"])
