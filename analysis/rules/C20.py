"""C20 — a term's meaning does not depend on where it is written (the structural clause only)."""
from sym import Walker, strip, show, mentions, TooManyPaths
from cfg import BodyCfg

EXPLANATION = ("One structural necessary condition of C20, decided by finite-domain evaluation over the character alphabet: the "
               "text of a term reaches the term constructor (the function that turns a text plus its `has digit / has "
               "non-digit / has period` classification into a term) from several scanners — parse_term for a term on its "
               "own, a list element or an infix operand, parse_arguments for the arguments of a complex term, built-in or "
               "query — and each scanner computes that classification itself. For every character of a numeric-looking text "
               "(digits, sign, period, blank, a letter) and every flag, the scanners must agree on whether a first character "
               "of that kind sets the flag (always / never / depending on its neighbours): if one scanner treats `-` as part "
               "of a number and another as a non-digit, `-5` is an integer in one context and an atom in another. Also: "
               "integer and float literals are converted (`str::parse`) only inside the term constructor. Decides these "
               "tables, not the equality of the parsers on every text (quotes, escapes, infix detection are not decided).")
RULES = ("R1 inventory: the term constructor K (crate function taking a text and boolean classification flags) and the "
         "scanners that call it; R2 for every scanner pair, flag and character class: the effect of a first character of that "
         "class on the flag (always / never / depends) is the same; R3 `str::parse::<i64|f64>` only inside K")
TRUSTED = ["rustc nightly MIR construction",
           "the table is taken for the first and for the second character of a text (scanner state as initialised: no open quote, depth 0); "
           "conditions on neighbouring characters count as `depends`"]

ALPHABET = [("0", ord("0")), ("5", ord("5")), ("9", ord("9")), ("+", ord("+")), ("-", ord("-")), (".", ord(".")), (" ", ord(" ")),
            ("a", ord("a")), ("Z", ord("Z")), ("_", ord("_"))]
_CMP = {"Eq": lambda a, b: a == b, "Ne": lambda a, b: a != b, "Lt": lambda a, b: a < b, "Le": lambda a, b: a <= b,
        "Gt": lambda a, b: a > b, "Ge": lambda a, b: a >= b}


def _char_const(t):
    t = strip(t)
    if isinstance(t, tuple) and t and t[0] == "const" and t[1] == "char":
        if isinstance(t[3], int):
            return t[3]
        r = str(t[2])
        if len(r) == 3 and r[0] == "'" and r[2] == "'":
            return ord(r[1])
        if r.startswith("'\\\\"):
            return ord("\\")
    return None


def _unref(t):
    t = strip(t)
    while isinstance(t, tuple) and t and t[0] in ("deref", "ref"):
        t = strip(t[1])
    return t


def _char_test(c):
    """(item term, op, code point) when the condition compares something with a character constant."""
    c = strip(c)
    if c[0] == "binop" and c[1] in _CMP:
        a, b = _unref(c[2]), _unref(c[3])
        kb, ka = _char_const(b), _char_const(a)
        if kb is not None and ka is None:
            return a, c[1], kb
        if ka is not None and kb is None:
            flip = {"Lt": "Gt", "Gt": "Lt", "Le": "Ge", "Ge": "Le"}.get(c[1], c[1])
            return b, flip, ka
    if c[0] == "call" and (c[1].endswith("::eq") or c[1].endswith("::ne")) and len(c[2]) == 2:
        a, b = _unref(c[2][0]), _unref(c[2][1])
        kb, ka = _char_const(b), _char_const(a)
        op = "Eq" if c[1].endswith("::eq") else "Ne"
        if kb is not None and ka is None:
            return a, op, kb
        if ka is not None and kb is None:
            return b, op, ka
    return None


def _flag_locals(G, t):
    """Named bool locals handed (through copies) as the flag arguments of one constructor call."""
    defs = {}
    for blk in G.blocks:
        for s in blk["stmts"]:
            if s["k"] == "assign" and not s["place"]["p"]:
                defs.setdefault(s["place"]["l"], []).append(s["rv"])
    out = []
    for a in t["args"]:
        if a["k"] not in ("copy", "move") or a["place"]["p"] or G.locals[a["place"]["l"]]["s"] != "bool":
            continue
        l = a["place"]["l"]
        n = 0
        while not G.locals[l].get("name") and n < 6:
            ds = defs.get(l, [])
            if len(ds) == 1 and ds[0]["k"] == "use" and ds[0]["op"]["k"] in ("copy", "move") and not ds[0]["op"]["place"]["p"]:
                l = ds[0]["op"]["place"]["l"]
                n += 1
            else:
                break
        out.append(l)
    return out


def _set_blocks(G, l):
    out = set()
    for i, blk in enumerate(G.blocks):
        if blk["cleanup"]:
            continue
        for s in blk["stmts"]:
            if s["k"] == "assign" and not s["place"]["p"] and s["place"]["l"] == l and s["rv"]["k"] == "use" and \
                    s["rv"]["op"]["k"] == "const" and s["rv"]["op"].get("int") == 1:
                out.add(i)
    return out


def table(G, flags, paths, trip=0):
    """{(flag position, character): "always" | "never" | "depends"} for the character a scanner looks at on its
    first (trip 0) or second (trip 1) time round the scanning loop."""
    loops = BodyCfg(G).loops()
    setb = [_set_blocks(G, l) for l in flags]
    allset = set().union(*setb) if setb else set()
    heads = [h for h, bl in loops.items() if bl & allset]
    if not heads:
        return None, "no loop sets the classification flags"
    head = min(heads, key=lambda h: len(loops[h]))
    # if loops nest, take the outermost that contains all flag assignments
    for h, bl in loops.items():
        if allset <= bl and len(bl) > len(loops[head]):
            head = h
    segs = []
    items = {}
    for p in paths:
        if head not in p.blocks:
            continue
        occ = [k for k in range(len(p.blocks)) if p.blocks[k] == head]
        if len(occ) <= trip:
            continue
        first = occ[trip]
        end = occ[trip + 1] if len(occ) > trip + 1 else len(p.blocks)
        seg_blocks = p.blocks[first:end]
        # events of the first trip: match events to block positions in order
        pos = 0
        evs = []
        for e in p.events:
            bb = e.get("bb")
            if bb is None:
                continue
            k = pos
            while k < len(p.blocks) and p.blocks[k] != bb:
                k += 1
            if k >= len(p.blocks):
                continue
            pos = k
            if first <= k < end and e["k"] == "branch":
                evs.append(e)
        if not (set(seg_blocks) & loops[head]) or len(seg_blocks) < 2:
            continue
        if trip > 0:
            # the characters before this one are taken to be plain digits: no quote opened, no bracket, no sign
            prior_ok = True
            pos2 = 0
            for e in p.events:
                bb = e.get("bb")
                if bb is None:
                    continue
                k = pos2
                while k < len(p.blocks) and p.blocks[k] != bb:
                    k += 1
                if k >= len(p.blocks):
                    continue
                pos2 = k
                if occ[0] <= k < first and e["k"] == "branch" and isinstance(e["value"], bool):
                    ct = _char_test(e["cond"])
                    if ct is not None and _CMP[ct[1]](ord("5"), ct[2]) != e["value"]:
                        prior_ok = False
                        break
            if not prior_ok:
                continue
        for e in evs:
            ct = _char_test(e["cond"])
            if ct is not None:
                items[ct[0]] = items.get(ct[0], 0) + 1
        segs.append((seg_blocks, evs))
    if not segs or not items:
        return None, "no character tests found on the first trip round the scanning loop"
    # the scanned character: the term compared with the most different constants, which no other compared term mentions
    item = max(items, key=lambda t: (items[t], -len(repr(t))))
    out = {}
    for name, code in ALPHABET:
        hits = [[], [], []]
        for seg_blocks, evs in segs:
            ok = True
            for e in evs:
                ct = _char_test(e["cond"])
                if ct is None or ct[0] != item or not isinstance(e["value"], bool):
                    continue
                if _CMP[ct[1]](code, ct[2]) != e["value"]:
                    ok = False
                    break
            if not ok:
                continue
            if not any((_char_test(e["cond"]) or (None,))[0] == item for e in evs):
                continue            # a trip that looks at no character (empty text, loop not entered)
            for k in range(len(flags)):
                hits[k].append(bool(set(seg_blocks) & setb[k]))
        for k in range(len(flags)):
            if not hits[k]:
                out[(k, name)] = "never"
            elif all(hits[k]):
                out[(k, name)] = "always"
            elif not any(hits[k]):
                out[(k, name)] = "never"
            else:
                out[(k, name)] = "depends"
    return out, ""


def run(ctx):
    prog = ctx.prog
    bodies = [b for b in prog.lib_bodies() if b.kind in ("Fn", "AssocFn")]
    # ---- R1: the constructor and its callers -----------------------------------------------------------------------------
    cands = {}
    for g in bodies:
        for i, t in g.calls():
            nm = t["callee"].get("resolved") or t["callee"].get("path") or ""
            kb = next((b for b in bodies if b.path == nm), None)
            if kb is None:
                continue
            tys = [kb.locals[j]["s"] for j in range(1, kb.mir["arg_count"] + 1)]
            if tys.count("bool") >= 2 and any(x in ("&str", "std::string::String", "&std::string::String") for x in tys) and \
                    "unifiable::Unifiable" in kb.locals[0]["s"]:
                cands.setdefault(kb.path, []).append((g, i, t))
    if not cands:
        ctx.missing("R1", "term constructor taking a text and classification flags")
        return
    K = max(cands, key=lambda k: len(cands[k]))
    KB = next(b for b in bodies if b.path == K)
    ctx.fn(KB)
    sites = cands[K]
    scanners = {}
    for g, i, t in sites:
        scanners.setdefault(g.path, (g, []))[1].append((i, t))
    ctx.ob("R1", "constructor", True, ctx.where(KB), "%s is called with a classification from %d scanner(s): %s" % (
        KB.npath, len(scanners), sorted(x.split("::")[-1] for x in scanners)))
    ctx.floor("R1", len(scanners), 2, "scanners that classify a text for the term constructor")
    # ---- R2: tables ------------------------------------------------------------------------------------------------------
    tables, flag_names = {}, {}
    for gp, (g, ss) in sorted(scanners.items()):
        ctx.fn(g)
        try:
            paths = Walker(g, max_visits=3, max_paths=600000).paths()
        except TooManyPaths:
            ctx.ob("R2", "table(%s)" % g.npath, False, ctx.where(g), "too many paths")
            continue
        ctx.stats["paths_walked"] += len(paths)
        flags = _flag_locals(g, ss[0][1])
        # all call sites of one scanner must hand over the same flag variables
        if any(_flag_locals(g, t) != flags for i, t in ss[1:]):
            ctx.ob("R2", "table(%s)" % g.npath, False, ctx.where(g), "the scanner's call sites hand different variables to the constructor")
            continue
        tb, why = table(g, flags, paths, 0)
        tb2, why2 = table(g, flags, paths, 1)
        if tb is None or tb2 is None:
            ctx.ob("R2", "table(%s)" % g.npath, False, ctx.where(g), why or why2)
            continue
        tb = dict(tb)
        for (k, ch), v in tb2.items():
            tb[(k, "later:" + ch)] = v
        tables[gp] = tb
        flag_names[gp] = [g.locals[l].get("name") or "flag%d" % k for k, l in enumerate(flags)]
        ctx.ob("R2", "table(%s)" % g.npath, True, ctx.where(g), "classification table read for %d characters x %d flags, at the first and at a later position" % (len(ALPHABET), len(flags)))
    ctx.extra["classification_tables"] = {gp.split("::")[-1]: {"%s:%s" % (flag_names[gp][k], ch): v for (k, ch), v in sorted(tb.items())}
                                          for gp, tb in tables.items()}
    gps = sorted(tables)
    if len(gps) >= 2:
        ref = gps[0]
        for other in gps[1:]:
            for (k, ch), v in sorted(tables[ref].items()):
                w = tables[other].get((k, ch))
                nm = flag_names[ref][k] if k < len(flag_names[ref]) else "flag%d" % k
                g_other = scanners[other][0]
                ctx.ob("R2", "agree(%r,%s)" % (ch, nm), v == w, ctx.where(g_other),
                       ("a character %r (%s) sets `%s` %s in %s but %s in %s: the same text is classified differently depending on "
                        "where it is written" % (ch.split(":")[-1], "not the first of the text" if ch.startswith("later:") else "first of the text",
                                                 nm, v, ref.split("::")[-1], w, other.split("::")[-1])) if v != w else
                       "%r: `%s` %s in both scanners" % (ch, nm, v))
    # ---- R3: number conversion only in the constructor -------------------------------------------------------------------
    bad = None
    n = 0
    for g in bodies:
        for i, t in g.calls():
            pa = t["callee"].get("path_args") or ""
            if "str>::parse::<i64>" in pa or "str>::parse::<f64>" in pa:
                # only conversions that end up in a number *term*
                makes_number = any(s_["k"] == "assign" and s_["rv"]["k"] == "aggregate" and s_["rv"].get("variant") in ("SInteger", "SFloat")
                                   for blk in g.blocks for s_ in blk["stmts"])
                if not makes_number:
                    continue
                n += 1
                if g.path != K and g.path not in {h.path for h in prog.private_callees(KB)}:
                    bad = (g, t)
    ctx.ob("R3", "numbers-converted-in-constructor-only", bad is None and n > 0, ctx.where(bad[0], bad[1]["line"]) if bad else ctx.where(KB),
           ("%s converts a text to a number outside the term constructor" % bad[0].npath) if bad else
           "%d `str::parse::<i64|f64>` call(s), all inside %s" % (n, KB.npath))
