"""C20 — a term's meaning does not depend on where it is written (the structural clause only)."""
import re
from sym import Walker, strip, show, mentions, TooManyPaths
from cfg import BodyCfg

EXPLANATION = ("One structural necessary condition of C20, decided by finite-domain evaluation over the character alphabet: the "
               "text of a term reaches the term constructor (the function that turns a text plus its `has digit / has "
               "non-digit / has period` classification into a term) from several scanners — parse_term for a term on its "
               "own, a list element or an infix operand, parse_arguments for the arguments of a complex term, built-in or "
               "query — and each scanner computes that classification itself. For every character of a numeric-looking text "
               "(digits, sign, period, blank, a letter) and every flag, the scanners must agree on whether a first character "
               "of that kind sets the flag (always / never / depending on its neighbours): if one scanner treats `-` as part "
               "of a number and another as a non-digit, `-5` is an integer in one context and an atom in another. Also: "
               "integer and float literals are converted (`str::parse`) only inside the term constructor. Decides these "
               "tables, not the equality of the parsers on every text (quotes and escapes are not decided). A second structural "
               "clause (R5): when one scanner builds a term itself behind a detector function that the constructor does not reach "
               "(today: parse_term builds add / subtract / multiply / divide behind check_arithmetic_infix), every other scanner "
               "builds it too or goes through that scanner; decided on the call graph and the dominator tree, not on texts.")
RULES = ("R1 inventory: the term constructor K (crate function taking a text and boolean classification flags) and the "
         "scanners that call it; R2 for every scanner pair, flag and character class: the effect of a first character of that "
         "class on the flag (always / never / depends) is the same; R3 `str::parse::<i64|f64>` only inside K; R4 a scanner that walks "
         "the characters of a text hands that same view of the text (not a differently trimmed one) to the constructor; "
         "R5 for every scanner A, Unifiable variant V built in A's own body and detector D (crate function returning a crate "
         "enum, not reachable from K except through a scanner, whose call dominates the aggregate): every other scanner B "
         "builds V behind D, reaches D, or reaches A, without going through K")
TRUSTED = ["rustc nightly MIR construction",
           "the table is taken for the first and for the second character of a text (scanner state as initialised: no open quote, depth 0); "
           "conditions on neighbouring characters count as `depends`"]

ALPHABET = [("0", ord("0")), ("5", ord("5")), ("9", ord("9")), ("+", ord("+")), ("-", ord("-")), (".", ord(".")), (" ", ord(" ")),
            ("a", ord("a")), ("Z", ord("Z")), ("_", ord("_"))]
_CMP = {"Eq": lambda a, b: a == b, "Ne": lambda a, b: a != b, "Lt": lambda a, b: a < b, "Le": lambda a, b: a <= b,
        "Gt": lambda a, b: a > b, "Ge": lambda a, b: a >= b}


def _char_const(t):
    t = strip(t)
    if isinstance(t, tuple) and t and t[0] == "const" and t[1] == "char":
        if isinstance(t[3], int):
            return t[3]
        r = str(t[2])
        if len(r) == 3 and r[0] == "'" and r[2] == "'":
            return ord(r[1])
        if r.startswith("'\\\\"):
            return ord("\\")
    return None


def _unref(t):
    t = strip(t)
    while isinstance(t, tuple) and t and t[0] in ("deref", "ref"):
        t = strip(t[1])
    return t


_PREDS = {
    "is_ascii_digit": lambda c: ord("0") <= c <= ord("9"),
    "is_numeric": lambda c: chr(c).isnumeric(),
    "is_ascii_alphabetic": lambda c: chr(c).isascii() and chr(c).isalpha(),
    "is_alphabetic": lambda c: chr(c).isalpha(),
    "is_ascii_alphanumeric": lambda c: chr(c).isascii() and chr(c).isalnum(),
    "is_alphanumeric": lambda c: chr(c).isalnum(),
    "is_whitespace": lambda c: chr(c).isspace(),
    "is_ascii_whitespace": lambda c: chr(c) in " \t\n\r\x0c",
    "is_ascii_punctuation": lambda c: chr(c).isascii() and not chr(c).isalnum() and not chr(c).isspace() and c > 32,
}


def _char_test(c):
    """(item term, test) when the condition asks something about one character: test(code point) -> bool."""
    c = strip(c)
    if c[0] == "binop" and c[1] in _CMP:
        a, b = _unref(c[2]), _unref(c[3])
        kb, ka = _char_const(b), _char_const(a)
        if kb is not None and ka is None:
            return a, (lambda code, op=c[1], k=kb: _CMP[op](code, k))
        if ka is not None and kb is None:
            return b, (lambda code, op=c[1], k=ka: _CMP[op](k, code))
    if c[0] == "call" and (c[1].endswith("::eq") or c[1].endswith("::ne")) and len(c[2]) == 2:
        a, b = _unref(c[2][0]), _unref(c[2][1])
        kb, ka = _char_const(b), _char_const(a)
        eq = c[1].endswith("::eq")
        if kb is not None and ka is None:
            return a, (lambda code, k=kb, eq=eq: (code == k) == eq)
        if ka is not None and kb is None:
            return b, (lambda code, k=ka, eq=eq: (code == k) == eq)
    if c[0] == "call" and len(c[2]) >= 1:
        last = c[1].split("::")[-1]
        if last in _PREDS and ("char" in c[1]):
            return _unref(c[2][0]), _PREDS[last]
        if last == "is_digit" and "char" in c[1] and len(c[2]) == 2:
            return _unref(c[2][0]), _PREDS["is_ascii_digit"]
    return None


def _enum_index(t):
    """k when t is the index component of the k-th item of an `enumerate()` iteration (k = earlier visits of the block
    of that `next()` call on this path)."""
    t = _unref(t)
    if isinstance(t, tuple) and t and t[0] == "field" and t[2] == "0":
        x = strip(t[1])
        if x[0] == "field" and x[2] == "Some.0":
            c = strip(x[1])
            if c[0] == "call" and c[1].endswith("::next") and "Enumerate" in c[1] and len(c) >= 4 and isinstance(c[3], tuple):
                return c[3][1]
    return None


def _index_test(c):
    """Truth value of a comparison between an enumerate() index and an integer constant, when it can be told."""
    c = strip(c)
    if c[0] == "binop" and c[1] in _CMP:
        for x, y, flip in ((c[2], c[3], False), (c[3], c[2], True)):
            k = _enum_index(x)
            yy = strip(y)
            if k is not None and isinstance(yy, tuple) and yy[0] == "const" and isinstance(yy[3], int) and yy[1] != "char":
                return _CMP[c[1]](yy[3], k) if flip else _CMP[c[1]](k, yy[3])
    return None


def _defs(G):
    defs = {}
    for i, blk in enumerate(G.blocks):
        for s in blk["stmts"]:
            if s["k"] == "assign" and not s["place"]["p"]:
                defs.setdefault(s["place"]["l"], []).append(("stmt", s["rv"]))
        t = blk["term"]
        if t["k"] == "call" and t.get("dest") and not t["dest"]["p"]:
            defs.setdefault(t["dest"]["l"], []).append(("call", t))
    return defs


def _root_local(G, defs, l, depth=0):
    """Follow single copies / moves / reborrows back to the local (or call) a value comes from."""
    while depth < 8:
        ds = defs.get(l, [])
        if len(ds) != 1:
            return ("local", l)
        kind, x = ds[0]
        if kind == "call":
            return ("call", x)
        rv = x
        if rv["k"] == "use" and rv["op"]["k"] in ("copy", "move") and not rv["op"]["place"]["p"]:
            l = rv["op"]["place"]["l"]
        elif rv["k"] in ("ref",) and rv["place"]["p"] in ([], ["deref"]):
            l = rv["place"]["l"]
        else:
            return ("local", l)
        depth += 1
    return ("local", l)


def _carrier(prog, b):
    """How a function receives the classification: ("bools", [param indices]) or ("struct", param index, adt, [bool field names])."""
    tys = [(j, b.locals[j]["s"]) for j in range(1, b.mir["arg_count"] + 1)]
    bools = [j for j, ty in tys if ty == "bool"]
    if len(bools) >= 2:
        return ("bools", bools)
    for j, ty in tys:
        t0 = ty.lstrip("&").replace("mut ", "").strip()
        a = prog.adt(t0)
        if a is not None and len(a["variants"]) == 1:
            fs = [f["name"] for f in a["variants"][0]["fields"] if f["ty"] == "bool"]
            if len(fs) >= 2:
                return ("struct", j, t0, fs)
    return None


def _set_blocks(G, l):
    out = set()
    for i, blk in enumerate(G.blocks):
        if blk["cleanup"]:
            continue
        for s in blk["stmts"]:
            if s["k"] == "assign" and not s["place"]["p"] and s["place"]["l"] == l and s["rv"]["k"] == "use" and \
                    s["rv"]["op"]["k"] == "const" and s["rv"]["op"].get("int") == 1:
                out.add(i)
    return out


def _set_blocks_field(G, l, field):
    out = set()
    for i, blk in enumerate(G.blocks):
        if blk["cleanup"]:
            continue
        for s in blk["stmts"]:
            if s["k"] == "assign" and s["place"]["l"] == l and any(isinstance(x, dict) and x.get("field") == field for x in s["place"]["p"]) and \
                    s["rv"]["k"] == "use" and s["rv"]["op"]["k"] == "const" and s["rv"]["op"].get("int") == 1:
                out.add(i)
    return out


def table(G, setb, paths, trip=0):
    """{(flag position, character): "always" | "never" | "depends"} for the character a scanner looks at on its
    first (trip 0) or second (trip 1) time round the scanning loop."""
    loops = BodyCfg(G).loops()
    flags = setb
    allset = set().union(*setb) if setb else set()
    heads = [h for h, bl in loops.items() if bl & allset]
    if not heads:
        return None, "no loop sets the classification flags"
    head = min(heads, key=lambda h: len(loops[h]))
    # if loops nest, take the outermost that contains all flag assignments
    for h, bl in loops.items():
        if allset <= bl and len(bl) > len(loops[head]):
            head = h
    segs = []
    items = {}
    switch_vals = {}
    for p in paths:
        if head not in p.blocks:
            continue
        occ = [k for k in range(len(p.blocks)) if p.blocks[k] == head]
        if len(occ) <= trip:
            continue
        first = occ[trip]
        end = occ[trip + 1] if len(occ) > trip + 1 else len(p.blocks)
        seg_blocks = p.blocks[first:end]
        # events of the first trip: match events to block positions in order
        pos = 0
        evs = []
        for e in p.events:
            bb = e.get("bb")
            if bb is None:
                continue
            k = pos
            while k < len(p.blocks) and p.blocks[k] != bb:
                k += 1
            if k >= len(p.blocks):
                continue
            pos = k
            if first <= k < end and e["k"] == "branch":
                evs.append(e)
        if not (set(seg_blocks) & loops[head]) or len(seg_blocks) < 2:
            continue
        if trip > 0:
            # the characters before this one are taken to be plain digits: no quote opened, no bracket, no sign
            prior_ok = True
            pos2 = 0
            for e in p.events:
                bb = e.get("bb")
                if bb is None:
                    continue
                k = pos2
                while k < len(p.blocks) and p.blocks[k] != bb:
                    k += 1
                if k >= len(p.blocks):
                    continue
                pos2 = k
                if occ[0] <= k < first and e["k"] == "branch" and isinstance(e["value"], bool):
                    ct = _char_test(e["cond"])
                    if ct is not None and ct[1](ord("5")) != e["value"]:
                        prior_ok = False
                        break
            if not prior_ok:
                continue
        for e in evs:
            ct = _char_test(e["cond"])
            if ct is not None:
                items[ct[0]] = items.get(ct[0], 0) + 1
            elif isinstance(e["value"], int) and not isinstance(e["value"], bool):
                # `match ch { '+' => .. }`: a switch on the character itself
                x = _unref(e["cond"])
                items[x] = items.get(x, 0) + 1
                switch_vals.setdefault(x, set()).add(e["value"])
        segs.append((seg_blocks, evs))
    if not segs or not items:
        return None, "no character tests found on the first trip round the scanning loop"
    # the scanned character: the term compared with the most different constants, which no other compared term mentions
    item = max(items, key=lambda t: (items[t], -len(repr(t))))
    out = {}
    for name, code in ALPHABET:
        hits = [[] for _ in flags]
        for seg_blocks, evs in segs:
            ok = True
            for e in evs:
                v = e["value"]
                if isinstance(v, bool) and _index_test(e["cond"]) is not None and _index_test(e["cond"]) != v:
                    ok = False           # `i == 0` taken the wrong way for this trip round an enumerate() loop
                    break
                if not isinstance(v, bool) and _unref(e["cond"]) == item:
                    if isinstance(v, int) and code != v:
                        ok = False
                        break
                    if v == "otherwise" and code in switch_vals.get(item, ()):
                        ok = False
                        break
                    continue
                ct = _char_test(e["cond"])
                if ct is None or ct[0] != item or not isinstance(v, bool):
                    continue
                if ct[1](code) != v:
                    ok = False
                    break
            if not ok:
                continue
            if not any((_char_test(e["cond"]) or (None,))[0] == item or _unref(e["cond"]) == item for e in evs):
                continue            # a trip that looks at no character (empty text, loop not entered)
            for k in range(len(flags)):
                hits[k].append(bool(set(seg_blocks) & setb[k]))
        for k in range(len(flags)):
            if not hits[k]:
                out[(k, name)] = "never"
            elif all(hits[k]):
                out[(k, name)] = "always"
            elif not any(hits[k]):
                out[(k, name)] = "never"
            else:
                out[(k, name)] = "depends"
    return out, ""


def _closure_verdicts(prog, cpath, depth=0):
    """{char: "always" | "never" | "depends"}: what a closure over one character answers (its boolean result), following
    the closures it calls."""
    import inline
    pol = inline.helpers(prog)
    K = pol.closure(cpath)
    if K is None or depth > 3:
        return None
    try:
        ps = [p for p in Walker(K, max_visits=2, max_paths=20000, inline=pol).paths() if p.end == "return"]
    except TooManyPaths:
        return None
    closures = {x.path for x in prog.lib_bodies() if x.kind == "Closure"}
    sub = {}

    def test_of(c):
        """(kind, f) for a boolean term about the scanned character: f(code) -> True / False / None."""
        c = strip(c)
        ct = _char_test(c)
        if ct is not None:
            return ct[1]
        if isinstance(c, tuple) and c and c[0] == "call" and c[1] in closures:
            if c[1] not in sub:
                sub[c[1]] = _closure_verdicts(prog, c[1], depth + 1)
            v = sub[c[1]]
            if v is None:
                return None
            names = {code: name for name, code in ALPHABET}
            return lambda code, v=v: {"always": True, "never": False}.get(v.get(names.get(code)))
        if isinstance(c, tuple) and c and c[0] == "unop" and c[1] == "Not":
            f = test_of(c[2])
            return (lambda code, f=f: (None if f(code) is None else not f(code))) if f is not None else None
        if isinstance(c, tuple) and c and c[0] == "const" and c[1] == "bool" and c[3] is not None:
            return lambda code, b=bool(c[3]): b
        return None
    out = {}
    seen_test = False
    for name, code in ALPHABET:
        res = []
        for p in ps:
            ok = True
            for e in p.events:
                if e["k"] != "branch" or not isinstance(e["value"], bool):
                    continue
                f = test_of(e["cond"])
                if f is None:
                    continue
                seen_test = True
                val = f(code)
                if val is not None and val != e["value"]:
                    ok = False
                    break
            if not ok:
                continue
            f = test_of(p.ret)
            if f is not None:
                seen_test = True
            res.append(f(code) if f is not None else None)
        if res and all(x is True for x in res):
            out[name] = "always"
        elif not res or all(x is False for x in res):
            out[name] = "never"
        else:
            out[name] = "depends"
    return out if seen_test else None


def any_table(prog, t):
    """A flag computed as `chars.iter().any(|c| ..)`: per character, does the closure say yes?  {char: verdict}"""
    cas = t["callee"].get("closure_args") or []
    if not cas:
        return None
    return _closure_verdicts(prog, cas[0]["closure"])


def run(ctx):
    prog = ctx.prog
    bodies = [b for b in prog.lib_bodies() if b.kind in ("Fn", "AssocFn")]
    by_path = {b.path: b for b in bodies}
    # ---- R1: the constructor, the functions that only pass the classification on, and the scanners that compute it --------
    cands = {}
    for b in bodies:
        car = _carrier(prog, b)
        tys = [b.locals[j]["s"] for j in range(1, b.mir["arg_count"] + 1)]
        if car is not None and any(x in ("&str", "std::string::String", "&std::string::String") for x in tys) and \
                "unifiable::Unifiable" in b.locals[0]["s"]:
            cands[b.path] = car
    if not cands:
        ctx.missing("R1", "term constructor taking a text and classification flags")
        return
    scanners = {}            # path -> (body, kind, flag handles)   handles: bool locals, or (struct local, [fields])
    forwards = set()
    for g in bodies:
        defs = None
        for i, t in g.calls():
            nm = t["callee"].get("resolved") or t["callee"].get("path") or ""
            car = cands.get(nm)
            if car is None:
                continue
            defs = defs or _defs(g)
            if car[0] == "bools":
                roots = []
                for j in car[1]:
                    a = t["args"][j - 1]
                    if a["k"] == "const":
                        roots.append(("const", a.get("int")))
                    elif a["k"] in ("copy", "move") and not a["place"]["p"]:
                        roots.append(_root_local(g, defs, a["place"]["l"]))
                    else:
                        roots.append(("other",))
                if all(r[0] == "local" and 1 <= r[1] <= g.mir["arg_count"] for r in roots) and g.path in cands:
                    forwards.add(g.path)
                    continue
                def usable(r):
                    return r[0] == "local" or (r[0] == "call" and (r[1]["callee"].get("path") or "").endswith("::any"))
                if all(usable(r) for r in roots):
                    scanners.setdefault(g.path, (g, "bools", [r[1] for r in roots], [by_path[nm].locals[j].get("name") or "flag%d" % k
                                                                                   for k, j in enumerate(car[1])]))
            else:
                a = t["args"][car[1] - 1]
                if a["k"] not in ("copy", "move") or a["place"]["p"]:
                    continue
                r = _root_local(g, defs, a["place"]["l"])
                if r[0] == "local" and 1 <= r[1] <= g.mir["arg_count"] and g.path in cands:
                    forwards.add(g.path)
                    continue
                if r[0] == "call":
                    hn = r[1]["callee"].get("resolved") or r[1]["callee"].get("path") or ""
                    H = by_path.get(hn)
                    if H is not None and car[2] in H.locals[0]["s"]:
                        hl = next((l for l in range(H.mir["arg_count"] + 1, len(H.locals)) if H.locals[l]["s"] == car[2] and H.locals[l].get("name")), None)
                        if hl is not None:
                            scanners.setdefault(H.path, (H, "struct", (hl, car[3]), car[3]))
                        continue
                if r[0] == "local":
                    scanners.setdefault(g.path, (g, "struct", (r[1], car[3]), car[3]))
    sinks = [k for k in cands if k not in forwards]
    if not sinks:
        ctx.missing("R1", "term constructor (every candidate passes its flags on)")
        return
    K = sinks[0]
    KB = by_path[K]
    ctx.fn(KB)
    ctx.ob("R1", "constructor", True, ctx.where(KB), "%s receives a classification computed by %d scanner(s): %s%s" % (
        KB.npath, len(scanners), sorted(x.split("::")[-1] for x in scanners),
        ("; passed on unchanged by %s" % sorted(x.split("::")[-1] for x in forwards)) if forwards else ""))
    ctx.floor("R1", len(scanners), 2, "scanners that classify a text for the term constructor")
    # ---- R2: tables ------------------------------------------------------------------------------------------------------
    tables, flag_names, any_mode = {}, {}, {}
    for gp, (g, kind, handles, names) in sorted(scanners.items()):
        ctx.fn(g)
        try:
            paths = Walker(g, max_visits=3, max_paths=600000).paths()
        except TooManyPaths:
            ctx.ob("R2", "table(%s)" % g.npath, False, ctx.where(g), "too many paths")
            continue
        ctx.stats["paths_walked"] += len(paths)
        any_flags = {}
        if kind == "bools":
            setb = []
            for k_, h_ in enumerate(handles):
                if isinstance(h_, dict):            # a flag that is the value of `..any(|c| ..)`
                    any_flags[k_] = any_table(prog, h_)
                    setb.append(set())
                else:
                    setb.append(_set_blocks(g, h_))
        else:
            setb = [_set_blocks_field(g, handles[0], f) for f in handles[1]]
        if any(v is None for v in any_flags.values()):
            ctx.ob("R2", "table(%s)" % g.npath, False, ctx.where(g), "a flag computed by `any(..)` whose closure cannot be read")
            continue
        if len(any_flags) == len(setb):
            tb, tb2 = {}, {}
        else:
            tb, why = table(g, setb, paths, 0)
            tb2, why2 = table(g, setb, paths, 1)
            if (tb is None or tb2 is None) and (why or why2) == "no loop sets the classification flags":
                # the flags are set outside any loop of this function (a per-character method whose state lives in `self`):
                # the table cannot be read off a trip round a loop; nothing is concluded for this scanner
                ctx.ob("R2", "table(%s)" % g.npath, True, ctx.where(g), "not evaluated: this scanner sets the flags outside a loop of its own "
                       "(a per-character method, for instance); its classification table is not read")
                continue
            if tb is None or tb2 is None:
                ctx.ob("R2", "table(%s)" % g.npath, False, ctx.where(g), why or why2)
                continue
        tb = dict(tb)
        for (k, ch), v in tb2.items():
            tb[(k, "later:" + ch)] = v
        for k_, at in any_flags.items():
            for ch, v in at.items():
                tb[(k_, ch)] = v
                tb[(k_, "later:" + ch)] = v
        any_mode[gp] = set(any_flags)
        tables[gp] = tb
        flag_names[gp] = list(names)
        ctx.ob("R2", "table(%s)" % g.npath, True, ctx.where(g),
               "classification table read for %d characters x %d flags, at the first and at a later position" % (len(ALPHABET), len(names)))
    ctx.extra["classification_tables"] = {gp.split("::")[-1]: {"%s:%s" % (flag_names[gp][k], ch): v for (k, ch), v in sorted(tb.items())}
                                          for gp, tb in tables.items()}
    gps = sorted(tables)
    if len(gps) >= 2:
        ref = gps[0]
        for other in gps[1:]:
            for (k, ch), v in sorted(tables[ref].items()):
                w = tables[other].get((k, ch))
                nm = flag_names[ref][k] if k < len(flag_names[ref]) else "flag%d" % k
                g_other = scanners[other][0]
                # at a later position "depends" can mean "depends on the characters before", which this abstraction does not
                # follow: only definite disagreements (always against never) are reported there
                same = (v == w) or (ch.startswith("later:") and "depends" in (v, w)) or \
                    ((k in any_mode.get(ref, ()) or k in any_mode.get(other, ())) and "depends" in (v, w))   # `any(closure)`: captured state
                ctx.ob("R2", "agree(%r,%s)" % (ch, nm), same, ctx.where(g_other),
                       ("a character %r (%s) sets `%s` %s in %s but %s in %s: the same text is classified differently depending on "
                        "where it is written" % (ch.split(":")[-1], "not the first of the text" if ch.startswith("later:") else "first of the text",
                                                 nm, v, ref.split("::")[-1], w, other.split("::")[-1])) if not same else
                       "%r: `%s` %s in both scanners" % (ch, nm, v))
    # ---- R4: a scanner that walks the characters of a text classifies the very text it hands on --------------------------------
    def peel(t, names):
        t = strip(t)
        while isinstance(t, tuple) and t and ((t[0] == "call" and t[1].split("::")[-1] in names and t[2]) or t[0] in ("ref", "deref")):
            t = strip(t[2][0]) if t[0] == "call" else strip(t[1])
        return t
    light = ("deref", "as_str", "as_ref", "borrow", "clone", "to_string", "to_owned", "index")
    heavy = light + ("trim", "trim_start", "trim_end")
    for gp, (g, kind, handles, names) in sorted(scanners.items()):
        try:
            paths = Walker(g, max_visits=2, max_paths=200000).paths()
        except TooManyPaths:
            continue
        ok4, why4, n4 = True, "", 0
        for p in paths:
            for e in p.events:
                if e["k"] != "call" or e["callee"] not in cands:
                    continue
                kb_ = by_path[e["callee"]]
                tpos = next((j for j in range(1, kb_.mir["arg_count"] + 1) if kb_.locals[j]["s"] in ("&str", "std::string::String", "&std::string::String")), None)
                if tpos is None:
                    continue
                handed = e["args"][tpos - 1]
                scanned = []
                for x in p.events:
                    if x["k"] == "branch":
                        ct = _char_test(x["cond"])
                        if ct is not None:
                            mentions(ct[0], lambda t: scanned.append(t) or False if (t[0] == "call" and t[1].endswith("::chars") and t[2]) else False)
                if not scanned:
                    continue
                src = strip(scanned[0][2][0])
                if peel(src, heavy) != peel(handed, heavy):
                    continue            # the text handed on is built up separately (an argument collected character by character)
                n4 += 1
                if peel(src, light) != peel(handed, light):
                    ok4, why4 = False, ("the characters classified are those of `%s`, the text handed to the constructor is `%s`: leading or "
                                        "trailing blanks shift the positions the classification looks at" % (show(peel(src, light))[:40], show(peel(handed, light))[:40]))
        if n4:
            ctx.ob("R4", "scans-the-text-it-hands-on(%s)" % g.npath, ok4, ctx.where(g), why4 or
                   "the scanned text and the text handed to the constructor are the same view of the input (%d call(s))" % n4)
    # ---- R5: a term a scanner builds itself behind a detector, every scanner builds ---------------------------------------
    from callgraph import CallGraph
    from cfg import BodyCfg
    cg = CallGraph(prog, crates=["suiron-lib"])
    reachK = cg.reach([K], avoid=set(scanners))      # what the constructor does with its own text (not with nested texts it hands back to a scanner)
    own = {}
    for gp, (g, kind, handles, names) in sorted(scanners.items()):
        G = BodyCfg(g)
        gate_blocks = {}
        for i, t in g.calls():
            nm = t["callee"].get("resolved") or t["callee"].get("path") or ""
            H = by_path.get(nm)
            if H is None or nm in reachK or nm in scanners:
                continue
            rty = H.locals[0]["s"]
            if "Unifiable" in rty or "Result<" in rty or "Option<" in rty or rty in ("()", "bool", "usize", "std::string::String"):
                continue
            if not any(("::" in w and not w.startswith(("std::", "core::", "alloc::"))) for w in re.findall(r"[A-Za-z_][A-Za-z_0-9:]*", rty)):
                continue
            gate_blocks.setdefault(nm, []).append(i)
        built = {}
        for i, blk in enumerate(g.blocks):
            if blk.get("cleanup"):
                continue
            for s_ in blk["stmts"]:
                if s_["k"] == "assign" and s_["rv"]["k"] == "aggregate" and str(s_["rv"].get("adt", "")).endswith("unifiable::Unifiable"):
                    for nm, bbs in gate_blocks.items():
                        if any(G.dom(bb, i) for bb in bbs):
                            built.setdefault(s_["rv"]["variant"], set()).add(nm)
        own[gp] = built
    n5 = 0
    for ga, built in sorted(own.items()):
        for v, gates in sorted(built.items()):
            for gb in sorted(own):
                if gb == ga:
                    continue
                n5 += 1
                rb = cg.reach([gb], avoid={K})
                covered = v in own[gb] or ga in rb or any(x in rb for x in gates)
                gl = "|".join(sorted(x.split("::")[-1] for x in gates))
                ctx.ob("R5", "own-production(%s via %s) also in %s" % (v, gl, by_path[gb].npath), covered, ctx.where(by_path[gb]),
                       "%s builds a %s term itself after consulting %s, which the constructor %s never reaches; %s" % (
                           by_path[ga].npath, v, gl, KB.npath,
                           ("%s does the same, or goes through it" % by_path[gb].npath) if covered else
                           ("%s neither consults it nor goes through %s: a text that detector accepts means a different term there" % (
                               by_path[gb].npath, by_path[ga].npath))))
    if not n5:
        ctx.ob("R5", "own-production", True, ctx.where(KB), "not evaluated: no scanner builds a term itself behind a detector the constructor does not reach")
    # ---- R3: number conversion only in the constructor -------------------------------------------------------------------
    bad = None
    n = 0
    fam = {K} | {h.path for h in prog.private_callees(KB)}
    for g in bodies:
        for i, t in g.calls():
            pa = t["callee"].get("path_args") or ""
            if "str>::parse::<i64>" in pa or "str>::parse::<f64>" in pa:
                makes_number = any(s_["k"] == "assign" and s_["rv"]["k"] == "aggregate" and s_["rv"].get("variant") in ("SInteger", "SFloat")
                                   for blk in g.blocks for s_ in blk["stmts"]) or \
                    any(str(a_.get("repr", "")).endswith(("::SInteger", "::SFloat")) for blk in g.blocks if blk["term"]["k"] == "call"
                        for a_ in blk["term"]["args"] if a_["k"] == "const")          # `.map(SInteger)`: the variant used as a function
                if not makes_number:
                    continue
                n += 1
                if g.path not in fam:
                    bad = (g, t)
    ctx.ob("R3", "numbers-converted-in-constructor-only", bad is None and n > 0, ctx.where(bad[0], bad[1]["line"]) if bad else ctx.where(KB),
           ("%s converts a text to a number outside the term constructor" % bad[0].npath) if bad else
           "%d `str::parse::<i64|f64>` call(s), all inside %s (and its private helpers)" % (n, KB.npath))
