"""C21 — loading a file equals parsing its rules one by one (the structural clauses only)."""
from sym import Walker, strip, show, mentions, TooManyPaths
from callgraph import CallGraph
from cfg import BodyCfg
import iters

EXPLANATION = ("Structural necessary conditions of C21, decided over the MIR paths of the file loader and of the functions of "
               "its source file that it reaches: (R1, error discipline) whenever one of them finds that a fallible step "
               "failed — the `Err` of a Result (opening the file, reading a line, splitting the text, parsing a rule) or the "
               "message of a line / bracket check — the path ends by returning an error, without another trip round the "
               "loop it was in: a failure that is skipped leaves the file `loaded` with different rules; (R2) the loader "
               "hands every rule text the reader returned, in order, to the rule parser and adds the parsed rule to the "
               "knowledge base it was given; (R3) the reader appends every line it keeps, in order and once, to the text it "
               "hands to the rule splitter. Decides these shapes, not the equality of the two ways of loading on every "
               "text: comment stripping, line joining and the splitting at periods are value-level and not decided.")
RULES = ("R1 no failure of a fallible step is skipped in the loader family (Err / check message => error return, no further "
         "loop trip); R2 loader wiring: reader(file) -> for each text in order -> rule parser -> insertion into the given "
         "knowledge base; R3 reader wiring: every kept line appended once, in order, to the text given to the splitter")
TRUSTED = ["rustc nightly MIR construction", "bounded unrolling: each loop body is walked up to 2 times per path"]

KB_TY = "HashMap<std::string::String, std::vec::Vec<rule::Rule>>"


def _is_error_ret(F, r):
    r = strip(r) if r is not None else None
    if r is None:
        return False
    if r[0] == "agg" and r[2] == "Err":
        return True
    if r[0] == "agg" and r[2] == "Some" and "Option<std::string::String>" in F.locals[0]["s"].replace(" ", ""):
        return True
    if r[0] == "call" and "from_residual" in r[1]:
        return True
    return False


def run(ctx):
    prog = ctx.prog
    bodies = [b for b in prog.lib_bodies() if b.kind in ("Fn", "AssocFn")]
    cg = CallGraph(prog, crates=["suiron-lib"])

    def reads_lines(b):
        return any("::lines" in (t["callee"].get("path") or "") for p_ in cg.reach([b.path]) if p_ in cg.nodes for i, t in cg.nodes[p_].calls())
    L = None
    for b in bodies:
        if b.is_pub and b.mir["arg_count"] == 2 and b.locals[1]["s"].replace(" ", "").startswith("&mut") and \
                KB_TY.replace(" ", "") in b.locals[1]["s"].replace(" ", "") and b.locals[2]["s"] == "&str" and reads_lines(b):
            L = b
    if L is None:
        ctx.missing("anchors", "file loader (pub fn(&mut KnowledgeBase, &str) that reads the lines of a file)")
        return
    ctx.fn(L)
    lfile = L.j.get("file")
    fam = [cg.nodes[p] for p in cg.reach([L.path]) if p in cg.nodes and cg.nodes[p].kind in ("Fn", "AssocFn") and cg.nodes[p].j.get("file") == lfile]
    ctx.extra["loader_family"] = sorted(b.npath for b in fam)
    ctx.floor("R1", len(fam), 3, "functions of the loader's source file reached from the loader")
    fam_paths = {b.path for b in fam}
    reporters = {b.path for b in fam if "Option<std::string::String>" in b.locals[0]["s"].replace(" ", "") and b.path != L.path}
    # ---- R1 ----------------------------------------------------------------------------------------------------------------
    n_fail = 0
    paths_of = {}
    for F in fam:
        ctx.fn(F)
        try:
            ps = Walker(F, max_visits=2, max_paths=200000).paths()
        except TooManyPaths:
            ctx.ob("R1", "errors-end-the-load(%s)" % F.npath, False, ctx.where(F), "too many paths")
            continue
        paths_of[F.path] = ps
        ctx.stats["paths_walked"] += len(ps)
        loops = BodyCfg(F).loops()
        ok, why, n = True, "", 0
        for p in ps:
            if p.end != "return":
                continue
            # position of every event in the block sequence of the path
            where_, pos_ = {}, 0
            for e in p.events:
                bb_ = e.get("bb")
                if bb_ is None:
                    continue
                k_ = pos_
                while k_ < len(p.blocks) and p.blocks[k_] != bb_:
                    k_ += 1
                if k_ < len(p.blocks):
                    pos_ = k_
                    where_[id(e)] = k_
            for e in p.events:
                if e["k"] != "branch":
                    continue
                c = strip(e["cond"])
                if c[0] != "variant":
                    continue
                x = strip(c[1])
                failed = e["value"] == "Err"
                if e["value"] == "Some" and x[0] == "call" and x[1] in reporters:
                    failed = True
                if not failed:
                    continue
                n += 1
                bb = e["bb"]
                # where the path goes after the failure was seen
                k = where_.get(id(e))
                if k is None:
                    continue
                later = p.blocks[k + 1:]
                heads = [h for h, bl in loops.items() if bb in bl]
                again = any(h in later for h in heads)
                if again or not _is_error_ret(F, p.ret):
                    ok, why = False, ("the failure seen at line %d (%s is %s) does not end the load: %s" % (
                        e["line"], show(x)[:50], e["value"],
                        "the loop goes on to the next item" if again else "the function returns %s" % show(p.ret)[:40]))
        n_fail += n
        ctx.ob("R1", "errors-end-the-load(%s)" % F.npath, ok, ctx.where(F), why or
               "%d failing outcome(s) on the paths of this function, each followed by an error return" % n)
    ctx.floor("R1/failures", n_fail, 4, "failing outcomes of fallible steps looked at in the loader family")
    # ---- R2 loader wiring --------------------------------------------------------------------------------------------------
    kbp = ("param", 1, L.locals[1].get("name") or "")
    fnp = ("param", 2, L.locals[2].get("name") or "")
    ok2, why2, n2 = True, "", 0
    for p in paths_of.get(L.path, []):
        if p.end != "return":
            continue
        parses = [e for e in p.events if e["k"] == "call" and e["callee"] in cg.nodes and "rule::Rule" in cg.nodes[e["callee"]].locals[0]["s"] and
                  "Result<" in cg.nodes[e["callee"]].locals[0]["s"]]
        for e in parses:
            n2 += 1
            a = strip(e["args"][0])
            pos = None
            found = []
            mentions(a, lambda t: found.append(t) or False if iters.position(t) is not None else False)
            if iters.position(a) is not None:
                found.append(a)
            for t in found:
                pos = iters.position(t)
                if pos is not None:
                    break
            if pos is None:
                ok2, why2 = False, "the text parsed at line %d (%s) is not an element of the list the reader returned" % (e["line"], show(a)[:50])
                continue
            coll, key = pos
            src = []
            mentions(coll, lambda t: src.append(t) or False if (t[0] == "call" and t[1] in fam_paths) else False)
            if not (src and any(strip(x) == fnp or mentions(x, lambda y: y == fnp) for s_ in src for x in s_[2])):
                ok2, why2 = False, "the texts parsed come from %s, not from the reader called with the loader's file name" % show(coll)[:60]
            if key[0] != "step" or key[2] != 0 or mentions(coll, lambda t: t[0] == "call" and t[1].endswith("::rev")) or \
                    mentions(key[1], lambda t: t[0] == "call" and (t[1].endswith("::rev") or "Rev<" in t[1])):
                ok2, why2 = False, "the rule texts are not visited first to last, one by one (%s)" % str(key)[:50]
            # the parsed rule reaches the knowledge base handed in
            res = strip(e["result"]) if e.get("result") is not None else None
            okp = [x for x in p.decisions if strip(x[0]) == ("variant", res) and x[1] == "Ok"]
            if okp:
                ins = [x for x in p.events if x["k"] == "call" and x is not e and any(strip(y) == kbp for y in x["args"]) and
                       any(mentions(y, lambda t: t == res) for y in x["args"]) and p.events.index(x) > p.events.index(e)]
                if len(ins) != 1:
                    ok2, why2 = False, "a rule parsed at line %d is added to the knowledge base %d time(s) on some path" % (e["line"], len(ins))
    ctx.ob("R2", "loader-wiring", ok2 and n2 > 0, ctx.where(L), why2 or
           "every text of reader(file name), first to last, goes to the rule parser and its rule into the given knowledge base (%d)" % n2)
    # ---- R3 reader wiring --------------------------------------------------------------------------------------------------
    readers = [b for b in fam if b.path != L.path and b.mir["arg_count"] == 1 and b.locals[1]["s"] == "&str" and
               "Result<std::vec::Vec<std::string::String>" in b.locals[0]["s"].replace(" ", "") and
               any((t["callee"].get("path") or "").endswith("::lines") or "Lines<" in (t["callee"].get("path_args") or "") or
                   "Lines<" in (t["callee"].get("path") or "") for i, t in list(b.calls()) + [x for h in prog.private_callees(b) for x in h.calls()])]
    if not readers:
        ctx.missing("R3", "line reader (fn(&str) -> Result<Vec<String>, _> iterating over lines)")
        return
    Rd = readers[0]
    ok3, why3, n3 = True, "", 0
    for p in paths_of.get(Rd.path, []):
        if p.end != "return":
            continue
        r = strip(p.ret)
        # the text handed to the splitter
        if not (r[0] == "call" and r[1] in fam_paths):
            continue
        acc = strip(r[2][0]) if r[2] else None
        while acc is not None and acc[0] == "call" and acc[1].split("::")[-1] in ("deref", "as_str", "as_ref", "borrow") and acc[2]:
            acc = strip(acc[2][0])
        apps = [e for e in p.events if e["k"] == "call" and e["callee"].split("::")[-1] in ("add_assign", "push_str") and
                e["args"] and strip(e["args"][0]) == acc]
        items = []
        for e in apps:
            n3 += 1
            src = strip(e["args"][1])
            nx = []
            mentions(src, lambda t: nx.append(t) or False if (t[0] == "call" and t[1].endswith("::next")) else False)
            if not nx:
                ok3, why3 = False, "what is appended at line %d (%s) does not come from a line of the file" % (e["line"], show(src)[:50])
                continue
            items.append(nx[-1])
        if len(items) != len(set(items)):
            ok3, why3 = False, "a line is appended more than once to the text handed to the splitter"
        tags = [t[3][1] for t in items if len(t) > 3 and isinstance(t[3], tuple)]
        if tags != sorted(tags):
            ok3, why3 = False, "lines are not appended in the order in which they were read"
        if any(mentions(t, lambda y: y[0] == "call" and (y[1].endswith("::rev") or "Rev<" in y[1])) for t in items):
            ok3, why3 = False, "the lines are read backwards"
    ctx.ob("R3", "reader-wiring(%s)" % Rd.npath, ok3 and n3 > 0, ctx.where(Rd), why3 or
           "every kept line is appended once, in reading order, to the text handed to the splitter (%d appends)" % n3)
