"""C21 — loading a file equals parsing its rules one by one (the structural clauses only)."""
from sym import Walker, strip, show, mentions, TooManyPaths
from callgraph import CallGraph
from cfg import BodyCfg
import iters

EXPLANATION = ("Structural necessary conditions of C21, decided over the MIR paths of the file loader and of the functions of "
               "its source file that it reaches: (R1, error discipline) whenever one of them finds that a fallible step "
               "failed — the `Err` of a Result (opening the file, reading a line, splitting the text, parsing a rule) or the "
               "message of a line / bracket check — the path ends by returning an error, without another trip round the "
               "loop it was in: a failure that is skipped leaves the file `loaded` with different rules; (R2) the loader "
               "hands every rule text the reader returned, in order, to the rule parser and adds the parsed rule to the "
               "knowledge base it was given; (R3) the reader appends every line it keeps, in order and once, to the text it "
               "hands to the rule splitter; (R4) the splitter does not return Ok without looking whether text is left over (a last "
               "rule without its period) and, inside its loop, never lets the text of a piece decide whether the piece is kept. Decides these shapes, not the equality of the two ways of loading on every "
               "text: comment stripping, line joining and the splitting at periods are value-level and not decided.")
RULES = ("R1 no failure of a fallible step is skipped in the loader family (Err / check message => error return, no further "
         "loop trip); R2 loader wiring: reader(file) -> for each text in order -> rule parser -> insertion into the given "
         "knowledge base; R3 reader wiring: every kept line appended once, in order, to the text given to the splitter; R4 the "
         "splitter looks whether the text it is still collecting is empty before it returns Ok, and no branch inside its loop "
         "tests the text being collected")
TRUSTED = ["rustc nightly MIR construction", "bounded unrolling: each loop body is walked up to 2 times per path"]

KB_TY = "HashMap<std::string::String, std::vec::Vec<rule::Rule>>"


def _is_error_ret(F, r):
    r = strip(r) if r is not None else None
    if r is None:
        return False
    if r[0] == "agg" and r[2] == "Err":
        return True
    if r[0] == "agg" and r[2] == "Some" and "Option<std::string::String>" in F.locals[0]["s"].replace(" ", ""):
        return True
    if r[0] == "call" and "from_residual" in r[1]:
        return True
    return False


def run(ctx):
    prog = ctx.prog
    bodies = [b for b in prog.lib_bodies() if b.kind in ("Fn", "AssocFn")]
    cg = CallGraph(prog, crates=["suiron-lib"])

    def reads_lines(b):
        return any("::lines" in (t["callee"].get("path") or "") for p_ in cg.reach([b.path]) if p_ in cg.nodes for i, t in cg.nodes[p_].calls())
    Ls = []
    for b in bodies:
        if b.is_pub and b.mir["arg_count"] == 2 and b.locals[1]["s"].replace(" ", "").startswith("&mut") and \
                KB_TY.replace(" ", "") in b.locals[1]["s"].replace(" ", "") and b.locals[2]["s"] == "&str" and reads_lines(b):
            Ls.append(b)
    if not Ls:
        ctx.missing("anchors", "loader (pub fn(&mut KnowledgeBase, &str) that reads the lines of a file or text)")
        return
    L = Ls[0]
    fam, seen_f = [], set()
    for L_ in Ls:
        ctx.fn(L_)
        lfile = L_.j.get("file")
        for p in cg.reach([L_.path]):
            if p in cg.nodes and p not in seen_f and cg.nodes[p].kind in ("Fn", "AssocFn") and cg.nodes[p].j.get("file") == lfile:
                seen_f.add(p)
                fam.append(cg.nodes[p])
    ctx.extra["loader_family"] = sorted(b.npath for b in fam)
    ctx.floor("R1", len(fam), 3, "functions of the loader's source file reached from the loader")
    fam_paths = {b.path for b in fam}
    loader_paths = {x.path for x in Ls}
    reporters = {b.path for b in fam if "Option<std::string::String>" in b.locals[0]["s"].replace(" ", "") and b.path not in loader_paths and
                 not (b.mir["arg_count"] >= 1 and KB_TY.replace(" ", "") in b.locals[1]["s"].replace(" ", ""))}
    # ---- R1 ----------------------------------------------------------------------------------------------------------------
    n_fail = 0
    paths_of = {}
    for F in fam:
        ctx.fn(F)
        try:
            ps = Walker(F, max_visits=2, max_paths=200000).paths()
        except TooManyPaths:
            ctx.ob("R1", "errors-end-the-load(%s)" % F.npath, False, ctx.where(F), "too many paths")
            continue
        paths_of[F.path] = ps
        ctx.stats["paths_walked"] += len(ps)
        loops = BodyCfg(F).loops()
        ok, why, n = True, "", 0
        for p in ps:
            if p.end != "return":
                continue
            # position of every event in the block sequence of the path
            where_, pos_ = {}, 0
            for e in p.events:
                bb_ = e.get("bb")
                if bb_ is None:
                    continue
                k_ = pos_
                while k_ < len(p.blocks) and p.blocks[k_] != bb_:
                    k_ += 1
                if k_ < len(p.blocks):
                    pos_ = k_
                    where_[id(e)] = k_
            for e in p.events:
                if e["k"] != "branch":
                    continue
                c = strip(e["cond"])
                if c[0] != "variant":
                    continue
                x = strip(c[1])
                failed = e["value"] == "Err"
                if e["value"] == "Some" and x[0] == "call" and x[1] in reporters:
                    failed = True
                if not failed:
                    continue
                n += 1
                bb = e["bb"]
                # where the path goes after the failure was seen
                k = where_.get(id(e))
                if k is None:
                    continue
                later = p.blocks[k + 1:]
                heads = [h for h, bl in loops.items() if bb in bl]
                again = any(h in later for h in heads)
                if again or not _is_error_ret(F, p.ret):
                    ok, why = False, ("the failure seen at line %d (%s is %s) does not end the load: %s" % (
                        e["line"], show(x)[:50], e["value"],
                        "the loop goes on to the next item" if again else "the function returns %s" % show(p.ret)[:40]))
        n_fail += n
        ctx.ob("R1", "errors-end-the-load(%s)" % F.npath, ok, ctx.where(F), why or
               "%d failing outcome(s) on the paths of this function, each followed by an error return" % n)
    ctx.floor("R1/failures", n_fail, 4, "failing outcomes of fallible steps looked at in the loader family")
    # ---- R2 loader wiring --------------------------------------------------------------------------------------------------
    import inline
    pol_all = inline.helpers(prog)

    def pol(name):
        """Walk into private helpers that work on the knowledge base (the parse-and-add loop moved out of a loader); the
        text scanners stay calls."""
        hb = pol_all(name)
        if hb is not None and any(KB_TY.replace(" ", "") in hb.locals[j]["s"].replace(" ", "") for j in range(1, hb.mir["arg_count"] + 1)):
            return hb
        return None
    pol.closure = pol_all.closure
    for L in Ls:
      kbp = ("param", 1, L.locals[1].get("name") or "")
      fnp = ("param", 2, L.locals[2].get("name") or "")
      ok2, why2, n2 = True, "", 0
      try:
          lps = Walker(L, max_visits=2, max_paths=200000, inline=pol).paths()
      except TooManyPaths:
          lps = []
      ctx.stats["paths_walked"] += len(lps)
      for p in lps:
          if p.end != "return":
              continue
          parses = [e for e in p.events if e["k"] == "call" and e["callee"] in cg.nodes and "rule::Rule" in cg.nodes[e["callee"]].locals[0]["s"] and
                    "Result<" in cg.nodes[e["callee"]].locals[0]["s"]]
          for e in parses:
              n2 += 1
              a = strip(e["args"][0])
              pos = None
              found = []
              mentions(a, lambda t: found.append(t) or False if iters.position(t) is not None else False)
              if iters.position(a) is not None:
                  found.append(a)
              for t in found:
                  pos = iters.position(t)
                  if pos is not None:
                      break
              if pos is None:
                  ok2, why2 = False, "the text parsed at line %d (%s) is not an element of the list the reader returned" % (e["line"], show(a)[:50])
                  continue
              coll, key = pos
              src = []
              mentions(coll, lambda t: src.append(t) or False if (t[0] == "call" and t[1] in fam_paths) else False)
              if not src:
                  ok2, why2 = False, "the texts parsed come from %s, not from the reader / splitter of this file" % show(coll)[:60]
              if key[0] != "step" or key[2] != 0 or mentions(coll, lambda t: t[0] == "call" and t[1].endswith("::rev")) or \
                      mentions(key[1], lambda t: t[0] == "call" and (t[1].endswith("::rev") or "Rev<" in t[1])):
                  ok2, why2 = False, "the rule texts are not visited first to last, one by one (%s)" % str(key)[:50]
              # the parsed rule reaches the knowledge base handed in
              res = strip(e["result"]) if e.get("result") is not None else None
              okp = [x for x in p.decisions if strip(x[0]) == ("variant", res) and x[1] == "Ok"]
              if okp:
                  ins = [x for x in p.events if x["k"] == "call" and x is not e and any(strip(y) == kbp for y in x["args"]) and
                         any(mentions(y, lambda t: t == res) for y in x["args"]) and p.events.index(x) > p.events.index(e)]
                  if len(ins) != 1:
                      ok2, why2 = False, "a rule parsed at line %d is added to the knowledge base %d time(s) on some path" % (e["line"], len(ins))
      ctx.ob("R2", "loader-wiring(%s)" % L.npath, ok2 and n2 > 0, ctx.where(L), why2 or
             "every rule text, first to last, goes to the rule parser and its rule into the given knowledge base (%d)" % n2)
    # ---- R3 reader wiring --------------------------------------------------------------------------------------------------
    # a reader: a function of the family that iterates over lines, appends to an accumulator and hands it to the splitter
    n_readers = 0
    small = inline.helpers(prog, max_blocks=12)      # `line_reader()`-sized helpers only: the scanners themselves stay calls
    for Rd in fam:
        if not any("::lines" in (t["callee"].get("path") or "") or "Lines<" in (t["callee"].get("path_args") or "") or
                   "Lines<" in (t["callee"].get("path") or "") for i, t in list(Rd.calls()) + [x for h in prog.private_callees(Rd) for x in h.calls()]):
            continue
        try:
            rps = Walker(Rd, max_visits=2, max_paths=200000, inline=small).paths()
        except TooManyPaths:
            ctx.ob("R3", "reader-wiring(%s)" % Rd.npath, False, ctx.where(Rd), "too many paths")
            continue
        ctx.stats["paths_walked"] += len(rps)
        ok3, why3, n3 = True, "", 0
        for p in rps:
            # the text handed to the splitter: a family call one of whose arguments is the accumulator of `+=` / push_str
            accs = {}
            for e in p.events:
                if e["k"] == "call" and not e.get("inlined") and e["args"] and (
                        e["callee"].split("::")[-1] in ("add_assign", "push_str") or
                        # any other way of putting text into a String (a single character, an insertion): what goes in must
                        # come from a line too (C21-agent16: a blank pushed between joined lines)
                        ("String::" in e["callee"] and e["callee"].split("::")[-1] in ("push", "insert", "insert_str", "extend"))):
                    accs.setdefault(strip(e["args"][0]), []).append(e)
            if not accs:
                continue
            for acc, apps in accs.items():
                def unwrap(x):
                    x = strip(x)
                    while isinstance(x, tuple) and x and x[0] == "call" and x[1].split("::")[-1] in ("deref", "as_str", "as_ref", "borrow") and x[2]:
                        x = strip(x[2][0])
                    return x
                handed = [e for e in p.events if e["k"] == "call" and not e.get("inlined") and e["callee"] in fam_paths and
                          any(unwrap(a_) == acc for a_ in e["args"])]
                if not handed:
                    continue
                rloops = BodyCfg(Rd).loops()
                line_loops = [bl for h, bl in rloops.items() if any(x["k"] == "call" and x["callee"].endswith("::next") and x["bb"] in bl and
                                                                    "Lines" in x["callee"] for x in p.events)]
                if not line_loops:
                    line_loops = [bl for h, bl in rloops.items() if any(x["bb"] in bl for x in apps)]
                if any(e["bb"] in bl for e in handed for bl in line_loops):
                    ok3, why3 = False, ("the text is handed to the splitter (line %d) inside the loop over the lines, before all lines were "
                                        "appended: a rule that continues on a later line is cut in two" % handed[0]["line"])
                items = []
                for e in apps:
                    n3 += 1
                    src = strip(e["args"][-1])
                    nx = []
                    mentions(src, lambda t: nx.append(t) or False if (t[0] == "call" and t[1].endswith("::next")) else False)
                    if not nx:
                        ok3, why3 = False, "what is appended at line %d (%s) does not come from a line being read" % (e["line"], show(src)[:50])
                        continue
                    items.append(nx[-1])
                if len(items) != len(set(items)):
                    ok3, why3 = False, "a line is appended more than once to the text handed to the splitter"
                tags = [t[3][1] for t in items if len(t) > 3 and isinstance(t[3], tuple)]
                if tags != sorted(tags):
                    ok3, why3 = False, "lines are not appended in the order in which they were read"
                if any(mentions(t, lambda y: y[0] == "call" and (y[1].endswith("::rev") or "Rev<" in y[1])) for t in items):
                    ok3, why3 = False, "the lines are read backwards"
        if n3 == 0:
            continue
        n_readers += 1
        ctx.ob("R3", "reader-wiring(%s)" % Rd.npath, ok3, ctx.where(Rd), why3 or
               "every kept line is appended once, in reading order, to the text handed to the splitter (%d appends)" % n3)
    def has_loop_with(b_, names):
        ls = BodyCfg(b_).loops()
        inl = set().union(*ls.values()) if ls else set()
        return any(i in inl and (t["callee"].get("path") or "").split("::")[-1] in names for i, t in b_.calls())
    shape3 = any(has_loop_with(b_, ("add_assign", "push_str")) for b_ in fam)
    if shape3:
        ctx.floor("R3", n_readers, 1, "functions that read lines, join them and hand the text to the splitter")
    elif n_readers == 0:
        ctx.ob("R3", "reader-wiring", True, "", "not evaluated: no function of the loader family joins lines in a loop with `+=` / push_str "
               "(an iterator pipeline, for instance); the order of the joined lines is then not decided by this rule")
    # ---- R4: the splitter does not drop what is left over ------------------------------------------------------------------
    # a splitter: a family function that collects characters into a text, pushes that text into its result at a separator
    # and starts again.  Before it returns Ok it must look whether the text still being collected is empty.
    n_split = 0
    for Sp in fam:
        if "Result<std::vec::Vec<std::string::String>" not in Sp.locals[0]["s"].replace(" ", "") or Sp.path in {x.path for x in Ls}:
            continue
        sps = paths_of.get(Sp.path)
        if sps is None:
            continue
        loops = BodyCfg(Sp).loops()
        inloop = set().union(*loops.values()) if loops else set()
        ok4, why4, n4 = True, "", 0
        is_splitter = False
        for p in sps:
            if p.end != "return":
                continue
            r = strip(p.ret)
            collectors = {strip(e["args"][0]) for e in p.events if e["k"] == "call" and e["callee"].endswith("String::push") and e["bb"] in inloop}
            pushed = [e for e in p.events if e["k"] == "call" and e["callee"].endswith("Vec::<T, A>::push") and e["bb"] in inloop and
                      strip(e["args"][1]) in collectors]
            if not collectors or not any(e["k"] == "call" and e["callee"].endswith("Vec::<T, A>::push") for e in p.events):
                continue
            is_splitter = is_splitter or bool(pushed)
            if not (r[0] == "agg" and r[2] == "Ok"):
                continue
            n4 += 1
            looked = False
            for e in p.events:
                if e["k"] != "branch" or e["bb"] in inloop:
                    continue
                c = strip(e["cond"])
                if mentions(c, lambda t: t[0] == "call" and t[1].split("::")[-1] in ("len", "is_empty") and
                            any(mentions(a_, lambda y: y in collectors) or strip(a_) in collectors for a_ in t[2])):
                    looked = True
            if not looked:
                ok4, why4 = False, ("the splitter returns Ok without looking whether the text it was still collecting is empty: a "
                                    "last fact or rule without its final period disappears")
        if not is_splitter:
            continue
        n_split += 1
        # R4 (second half): whether a piece cut at a separator is kept does not depend on the piece.  Inside its loop the
        # splitter looks at the current character and its counters only; a branch there on the text being collected (its
        # length, its trimmed form, what was taken out of it) decides per piece whether it reaches the result.
        ok5, why5, n5 = True, "", 0
        for p in sps:
            collectors = {strip(e["args"][0]) for e in p.events if e["k"] == "call" and e["callee"].endswith("String::push") and e["bb"] in inloop}
            if not collectors:
                continue
            for e in p.events:
                if e["k"] != "branch" or e["bb"] not in inloop:
                    continue
                n5 += 1
                c = strip(e["cond"])
                if mentions(c, lambda y: y in collectors) or c in collectors:
                    ok5, why5 = False, ("inside the splitting loop a branch at line %d tests the text being collected (%s): whether a piece "
                                        "cut at a separator reaches the result depends on the piece, so some text of the file can be dropped "
                                        "without an error" % (e["line"], show(c)[:70]))
        ctx.ob("R4", "cut-pieces-kept-whatever-they-hold(%s)" % Sp.npath, ok5 and n5 > 0, ctx.where(Sp), why5 or
               "none of the %d branch decisions inside the splitting loop looks at the text being collected" % n5)
        ctx.ob("R4", "leftover-is-looked-at(%s)" % Sp.npath, ok4 and n4 > 0, ctx.where(Sp), why4 or
               "every Ok return follows a test of the emptiness of the text still being collected (%d path(s))" % n4)
    shape4 = any(has_loop_with(b_, ("push",)) and any((t["callee"].get("path") or "").endswith("String::push") for i, t in b_.calls()) for b_ in fam)
    if shape4:
        ctx.floor("R4", n_split, 1, "splitters (collect characters, push the text at a separator, start again)")
    elif n_split == 0:
        ctx.ob("R4", "leftover-is-looked-at", True, "", "not evaluated: no function of the loader family collects characters into a text inside "
               "a loop of its own (a splitter struct with methods, for instance); left-over text is then not decided by this rule")
