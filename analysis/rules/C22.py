"""C22 — a query's answers do not depend on earlier queries."""
from solver import Solver, goal_kinds, real_calls, is_none, some_payload
from callgraph import CallGraph
import statics
from sym import Walker, strip, show, mentions

EXPLANATION = ("Structural necessary conditions of C22: the inventory G of process-wide mutable state (static mut, "
               "interior-mutable statics, thread-locals) read by any function reachable from the solver entry points is "
               "computed from MIR; every path through the query constructor make_query writes each member of G (directly "
               "or through a callee that writes it on all of its paths) before the query's variables are renamed, and "
               "parse_query reaches its Ok result only through make_query; the knowledge base, rules, goals and terms are "
               "Freeze and the solver only holds `&KnowledgeBase`, with no solver-reachable function taking it mutably; no "
               "solution node is kept in a static. Decides that no state survives from an earlier query into a newly "
               "constructed one, not the answers themselves.")
RULES = ("R1 inventory G = mutable statics read in solver-reachable code; R2 make_query must-writes all of G before "
         "renaming, parse_query's Ok goes through make_query; R3 kb/rule/goal/term Freeze, SolutionNode.kb is a shared "
         "reference, no solver-reachable `&mut KnowledgeBase`; R4 no static holds node state; R5 = C23/R1: every timer started by solve/solve_all is cancelled on every path (a "
         "leaked timer would set the stop flag during a later query)")
WITNESSES = {"W2SolverHoldsSharedKb": "SolutionNode.kb is a shared reference: running a query cannot change the knowledge base a later query sees (E0596)"}
TRUSTED = ["rustc nightly MIR construction", "Freeze computed by rustc (is_freeze)"]


def run(ctx):
    prog = ctx.prog
    S = Solver(prog, ctx)
    if S.entry is None or S.make_base is None:
        ctx.missing("anchors", "solver entry / make_base_node")
        return
    cg = CallGraph(prog, crates=["suiron-lib"])
    mw, acc = statics.must_write(prog, cg)
    st = {s["path"]: s for s in prog.lib["statics"]}
    mutable = {p for p, s in st.items() if s["mutable"] or not s["freeze"] or s["thread_local"]}
    roots = [S.entry.path, S.make_base.path]
    for nm in ("solutions::solve", "solutions::solve_all"):
        b = prog.one(nm)
        if b is None:
            ctx.missing("R1", nm)
        else:
            roots.append(b.path)
    reach = cg.reach(roots)
    ctx.extra["solver_reachable_functions"] = len(reach)
    # write-once cells (OnceLock / LazyLock / Once ..) touched only by functions that cannot matter to the search hold
    # process-wide data (e.g. "is tracing enabled"), the same for every query: not per-query state
    S._neutral_setup()
    process_wide = set()
    for st_path in S.write_once_statics:
        users = [p for p in cg.nodes if any(a["static"] == st_path for a in acc.get(p, []))]
        if users and all(S.neutral(u) for u in users):
            process_wide.add(st_path)
    ctx.extra["process_wide_write_once_statics"] = sorted(process_wide)
    # generation tokens (an atomic counter advanced by read-modify-write, loaded only to test "is my token still the
    # current one?") carry nothing from one query to the next that a query can observe
    tokens = statics.generation_tokens(prog, cg, acc)
    ctx.extra["generation_token_statics"] = tokens
    process_wide |= set(tokens)
    # configuration: a static that nothing reachable from running or building a query ever writes (only an explicit
    # setter the user calls does) cannot differ "because of the queries that ran before"
    qroots = list(roots)
    for nm in ("s_complex::make_query", "s_complex::parse_query", "time_out::start_query"):
        qb = prog.one(nm)
        if qb is not None:
            qroots.append(qb.path)
    qreach = cg.reach(qroots)
    config = set()
    for st_path in mutable:
        writers = {p for p in cg.nodes if any(a["static"] == st_path and (a["kind"] == "write" or (a["kind"] == "ref" and a.get("mutable_ref")))
                                              for a in acc.get(p, []))}
        if writers and not (writers & qreach):
            config.add(st_path)
    ctx.extra["configuration_statics"] = sorted(config)
    process_wide |= config
    G = {}
    for p in reach:
        for a in acc.get(p, []):
            if a["static"] in mutable and a["static"] not in process_wide and a["kind"] == "read":
                G.setdefault(a["static"], []).append((p, a["line"]))
        # thread-locals or statics not in this crate's item list but mutable
        for a in acc.get(p, []):
            if a["static"] not in st and a.get("static_mut"):
                G.setdefault(a["static"], []).append((p, a["line"]))
    ctx.floor("R1", len(G), 1, "mutable statics read by the solver")
    ctx.extra["G"] = {k: ["%s:%d" % x for x in v] for k, v in G.items()}
    # thread-local cells (`thread_local!`): reached through LocalKey::with, so the static inventory above cannot see them
    import tls
    tinv, tper = tls.inventory(prog)
    scoped, tls_open, sinks = [], [], []
    by_path = {b.path: b for b in prog.lib_bodies()}
    for key, e in sorted(tinv.items(), key=lambda kv: str(kv[0])):
        users = e["readers"] | e["writers"]
        if not (users & reach):
            continue
        if key is None:
            ctx.ob("R1", "thread-local(unidentified)", False, "", "a LocalKey used in solver-reachable code could not be identified")
            continue
        if not e["writers"]:
            continue            # never written: a per-thread constant
        # a statistic: nothing the search-side closures see of the cell leaves them (they return unit and capture nothing
        # mutably), so the cell can feed only itself; its readers are accessors outside the search
        in_search = [o for fp, os_ in tper.items() if fp in reach for o in os_ if o["key"] == key]
        if in_search and not any(o["flows_out"] for o in in_search):
            sinks.append(key)
            continue
        bad = None
        # the functions that change the cell, and the functions that call those (they hold the guards)
        holders = set(e["writers"])
        for g in prog.lib_bodies():
            if g.kind == "Closure":
                continue
            for _i, t_ in g.calls():
                if (t_["callee"].get("resolved") or t_["callee"].get("path") or "") in e["writers"]:
                    holders.add(g.path)
        for w in sorted(holders):
            wb = by_path.get(w)
            if wb is None:
                bad = (w, {None})
                break
            if " as std::ops::Drop>" in w:
                continue        # a guard's Drop: accounted for where the guard is held
            ne = tls.net_effect(prog, wb, key, tper)
            if ne != {0}:
                bad = (w, ne)
                break
        if bad is None:
            scoped.append(key)
        else:
            tls_open.append((key, bad))
    ctx.extra["scoped_thread_local_counters"] = scoped
    ctx.extra["thread_local_statistics_not_read_by_the_search"] = sinks
    MQ = prog.one("s_complex::make_query")
    PQ = prog.one("s_complex::parse_query")
    if MQ is None or PQ is None:
        ctx.missing("R2", "make_query / parse_query")
        return
    ctx.fn(MQ)
    ctx.fn(PQ)
    # R2: must-write + ordering before renaming
    from cfg import BodyCfg
    cfg = BodyCfg(MQ)
    for g in sorted(G):
        okmw = g in mw.get(MQ.path, set())
        # ordering: every call to recreate_variables in make_query is dominated by a block that writes g
        wblocks = set()
        for a in acc[MQ.path]:
            if a["static"] == g and a["kind"] == "write":
                wblocks.add(a["bb"])
        for i, t in MQ.calls():
            nm = t["callee"].get("resolved") or t["callee"]["path"]
            if g in mw.get(nm, set()):
                wblocks.add(i)
        # where the query's variables are renamed: a call that reaches recreate_variables, or the creation / passing of
        # a closure that does (`terms.into_iter().map(|t| t.recreate_variables(..))`)
        def renames(path):
            return path.endswith("recreate_variables") or (path in cg.nodes and any(x.endswith("recreate_variables") for x in cg.reach([path])))
        ren = []
        for i, blk in enumerate(MQ.blocks):
            hit = any(s_["k"] == "assign" and s_["rv"].get("ak") == "closure" and renames(s_["rv"]["closure"]) for s_ in blk["stmts"])
            t = blk["term"]
            if t["k"] == "call" and not t["callee"].get("indirect"):
                nm = t["callee"].get("resolved") or t["callee"].get("path") or ""
                hit = hit or renames(nm) or any(renames(ca["closure"]) for ca in t["callee"].get("closure_args", []))
            if hit:
                ren.append(i)
        ordered = bool(ren) and all(any(cfg.dom(w, r) and w != r for w in wblocks) for r in ren)
        readers = sorted({x[0].split("::")[-1] for x in G[g]})
        ctx.ob("R2", "reset(%s)" % g.split("::")[-1], okmw and ordered, ctx.where(MQ),
               ("the query constructor does not reset `%s` on every path (read during the search by %s): a query built "
                "after an earlier one inherits its value" % (g, readers)) if not okmw else
               ("`%s` is reset, but not before the query's variables are renamed" % g) if not ordered else
               "make_query writes `%s` on every path, before renaming (read by %s)" % (g, readers))
    for key, (w, ne) in tls_open:
        wb = by_path.get(w)
        resets = [o for o in tper.get(MQ.path, []) if o["key"] == key and any(x[0] == "const" for x in o["effects"])]
        dominated = bool(resets) and all(any(cfg.dom(o["bb"], i) for o in resets) for i, blk in enumerate(MQ.blocks)
                                         if blk["term"]["k"] == "return")
        ctx.ob("R2", "reset(%s)" % key.split("::")[-1], dominated, ctx.where(wb) if wb is not None else "",
               "make_query sets the thread-local `%s` to a constant on every path" % key if dominated else
               ("the thread-local `%s` is read during the search and %s can leave it changed (net change over its paths: %s); it is "
                "not reset when a query is built, so a query inherits what earlier queries left in it" % (
                    key, w.split("::")[-1], sorted(str(x) for x in ne))))
    # parse_query's Ok goes through make_query
    ok, why, n = True, "", 0
    try:
        pps = Walker(PQ, max_visits=2, max_paths=100000).paths()
    except Exception as e:
        pps = []
        ok, why = False, "cannot enumerate parse_query: %s" % e
    ctx.stats["paths_walked"] += len(pps)
    for p in pps:
        if p.end != "return" or p.ret[0] != "agg" or p.ret[2] != "Ok":
            continue
        n += 1
        pl = strip(dict(p.ret[3]).get("0"))
        if not (pl[0] == "call" and pl[1] == MQ.path):
            ok, why = False, "parse_query returns Ok(%s) without going through make_query" % show(pl)
    ctx.ob("R2", "parse_query-through-make_query", ok and n > 0, ctx.where(PQ), why or "every Ok(..) of parse_query is make_query(..) (%d paths)" % n)
    # ---- R3 ---------------------------------------------------------------
    for nm in ("unifiable::Unifiable", "goal::Goal", "rule::Rule", "operator::Operator", "built_in_predicates::BuiltInPredicate"):
        a = prog.adt(nm)
        ctx.ob("R3", "freeze(%s)" % nm.split("::")[-1], a is not None and a["freeze"], "", "no interior mutability in %s" % nm)
    kbal = [a for a in prog.lib["aliases"] if a["path"].endswith("KnowledgeBase")]
    ctx.ob("R3", "freeze(KnowledgeBase)", bool(kbal) and kbal[0]["freeze"], "", "KnowledgeBase is Freeze")
    node = prog.adt("solution_node::SolutionNode")
    kbf = [f for f in node["variants"][0]["fields"] if f["name"] == "kb"] if node else []
    ctx.ob("R3", "node-holds-shared-kb", bool(kbf) and kbf[0]["ty"].startswith("&") and not kbf[0]["ty"].startswith("&mut"), "",
           "SolutionNode.kb : %s" % (kbf[0]["ty"] if kbf else "?"))
    bad = None
    for p in reach:
        b = cg.nodes[p]
        for i in range(1, b.mir["arg_count"] + 1):
            ty = b.locals[i]["s"]
            if ty.startswith("&mut") and "HashMap<std::string::String, std::vec::Vec<rule::Rule>>" in ty:
                bad = b
    ctx.ob("R3", "no-mutable-kb-in-solver", bad is None, ctx.where(bad) if bad else "",
           "solver-reachable function takes the knowledge base mutably" if bad else
           "none of %d solver-reachable functions takes `&mut KnowledgeBase`" % len(reach))
    # ---- R4 ---------------------------------------------------------------
    bad = [s for s in prog.lib["statics"] if any(x in s["ty"] for x in ("SolutionNode", "RefCell", "Rc<", "HashMap", "Vec<"))]
    ctx.ob("R4", "no-node-state-in-statics", not bad, "", "statics holding search state: %s" % [s["path"] for s in bad] if bad
           else "no static holds nodes, sets or collections (%d statics)" % len(prog.lib["statics"]))
    # ---- R5: no timer of an earlier query survives it (C23/R1), or fires harmlessly (C23/R2 failed-cancel-harmless) -----------------------------------------------------
    import importlib
    c23 = importlib.import_module("rules.C23")
    before = len(ctx.obs)
    c23.run(ctx)
    keep = []
    for o in ctx.obs[before:]:
        if o["rule"] == "R1" or (o["rule"] == "R2" and o["instance"] == "failed-cancel-harmless"):
            o["instance"] = "C23.%s." % o["rule"] + o["instance"]
            o["rule"] = "R5"
            o["key"] = "C22/R5/" + o["instance"]
            keep.append(o)
    del ctx.obs[before:]
    ctx.obs.extend(keep)
    ctx.note("INFO C22: building a second query while a first one is half-enumerated resets the shared id counter under "
             "the first one (the property speaks of queries that ran before, so this is not counted)")
