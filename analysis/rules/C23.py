"""C23 — solve/solve_all report real answers or a timeout."""
from solver import outcome_of, Solver, real_calls, is_none, some_payload, const_false
from sym import Walker, strip, show, mentions
import statics
from callgraph import CallGraph

EXPLANATION = ("Structural necessary conditions of C23 decided on every CFG path of solve and solve_all: the timer started "
               "is cancelled on every path to a return and every search happens inside that window; the stop flag is reset "
               "before the timer is started; an answer or `No more.` is reported only on the false edge of a stop-flag read "
               "taken after the search that produced it, the timeout message only on a true edge; the reported text is "
               "format_solution(query, query.replace_variables(set returned by that search)); count_rules yields 0 once the "
               "flag is set. Decides pairing, ordering and provenance; nothing about elapsed time.")
RULES = ("R1 start_query_timer/cancel_timer pairing, searches inside the window; R2 flag reset precedes ThreadTimer::start; "
         "R3 flag read after each search guards what is reported; R4 answer text provenance; R5 count_rules returns 0 when stopped")
TRUSTED = ["rustc nightly MIR construction", "thread_timer runs the closure after the delay unless cancelled"]


def run(ctx):
    prog = ctx.prog
    S = Solver(prog, ctx)
    if S.entry is None:
        ctx.missing("anchors", "solver entry")
        return
    E = S.entry
    ST = prog.one("time_out::start_query_timer")
    CT = prog.one("time_out::cancel_timer")
    QS = prog.one("time_out::query_stopped")
    FS = prog.one("solutions::format_solution")
    if None in (ST, CT, QS, FS):
        ctx.missing("anchors", "start_query_timer / cancel_timer / query_stopped / format_solution")
        return
    import inline
    pol = inline.helpers(prog, keep=(ST.path, CT.path, QS.path, FS.path, E.path))
    for nm in ("solutions::solve", "solutions::solve_all"):
        F = prog.one(nm)
        if F is None:
            ctx.missing("R1", nm)
            continue
        ctx.fn(F)
        ps = Walker(F, max_visits=3, inline=pol).paths()
        ctx.stats["paths_walked"] += len(ps)
        short = nm.split("::")[-1]
        r1, w1, r3, w3, r4, w4 = True, "", True, "", True, ""
        n_ret = n_ans = 0
        for p in ps:
            if p.end != "return":
                continue
            n_ret += 1
            ev = p.events
            starts = [i for i, e in enumerate(ev) if e["k"] == "call" and e["callee"] == ST.path]
            cancels = [i for i, e in enumerate(ev) if e["k"] == "call" and e["callee"] == CT.path]
            searches = [i for i, e in enumerate(ev) if e["k"] == "call" and e["callee"] == E.path]
            if len(starts) != 1 or len(cancels) != 1 or cancels[0] < starts[0] or \
                    strip(ev[cancels[0]]["args"][0]) != ev[starts[0]]["result"]:
                r1, w1 = False, "a returning path does not pair one start_query_timer with one cancel_timer of the same timer"
                continue
            if any(i < starts[0] or i > cancels[0] for i in searches):
                r1, w1 = False, "a search runs outside the timer window"
            # what is reported on this path
            reads = [(i, e) for i, e in enumerate(ev) if e["k"] == "branch" and e["cond"][0] == "call" and e["cond"][1] == QS.path]
            fmts = [(i, e) for i, e in enumerate(ev) if e["k"] == "call" and e["callee"] == FS.path]
            for i, e in fmts:
                n_ans += 1
                # provenance
                q, res = e["args"][0], strip(e["args"][1])
                okp = res[0] == "call" and res[1].endswith("replace_variables")
                if okp:
                    s = strip(res[2][1])
                    prev = [j for j in searches if j < i]
                    okp = bool(prev) and s == ("field", ev[prev[-1]]["result"], "Some.0") and strip(res[2][0]) == strip(q)
                    okp = okp and mentions(strip(q), lambda t: t[0] == "field" and t[2] == "goal")
                if not okp:
                    r4, w4 = False, "the reported text is format_solution(%s, %s)" % (show(q), show(res))
                prev = [j for j in searches if j < i]
                guard = [(j, b) for j, b in reads if prev and prev[-1] < j < i]
                if not guard or guard[-1][1]["value"] is not False:
                    r3, w3 = False, "an answer is reported without a stop-flag read (false edge) after the search that produced it"
            # "No more." / None outcome
            for j in searches:
                res = ev[j]["result"]
                none = outcome_of(p, res) == "None"
                if none:
                    g = [(k, b) for k, b in reads if k > j]
                    if not g:
                        r3, w3 = False, "`no more answers` is concluded without reading the stop flag after the search"
            # timeout message only on a true edge: a path whose last flag read is True must not report an answer after it
            if reads and reads[-1][1]["value"] is True:
                if any(i > reads[-1][0] for i, e in fmts):
                    r3, w3 = False, "an answer is formatted after the stop flag was read as set"
        ctx.ob("R1", "pairing(%s)" % short, r1 and n_ret > 0, ctx.where(F), w1 or "timer started once and cancelled once on all %d returning paths; searches inside the window" % n_ret)
        ctx.ob("R3", "guarded-report(%s)" % short, r3 and n_ans > 0, ctx.where(F), w3 or "each of %d reported answers follows a stop-flag read (false) taken after its search" % n_ans)
        ctx.ob("R4", "answer-text(%s)" % short, r4 and n_ans > 0, ctx.where(F), w4 or "format_solution(query, query.replace_variables(Some-payload of that search))")
    # ---- R1b: cancel_timer really cancels: on every returning path the timer handle it was given is cancelled
    # (dropping the handle does not stop a thread_timer: the thunk would still set the stop flag later, in the middle
    #  of whatever query runs then)
    ok, why, n = True, "", 0
    tp = ("param", 1, CT.locals[1].get("name") or "")
    for p in Walker(CT, max_visits=2, inline=pol).paths():
        if p.end != "return":
            continue
        n += 1
        cs = [e for e in p.calls() if e["callee"].endswith("ThreadTimer::cancel") and e["args"] and
              mentions(e["args"][0], lambda t: t == tp)]
        if not cs:
            ok, why = False, "a returning path of cancel_timer does not call ThreadTimer::cancel on the timer it was given"
    ctx.ob("R1", "cancel-cancels", ok and n > 0, ctx.where(CT), why or "ThreadTimer::cancel(timer) on all %d returning paths" % n)
    # ---- R3b: the timeout message is produced only after the flag was read as set ---------------------------------
    for nm in ("solutions::solve", "solutions::solve_all"):
        F = prog.one(nm)
        if F is None:
            continue
        ok, why, n = True, "", 0
        for p in Walker(F, max_visits=3, inline=pol).paths():
            ev = p.events
            for i, e in enumerate(ev):
                if e["k"] == "call" and any(isinstance(a, tuple) and a[0] == "const" and "timed out" in str(a[2]) for a in e["args"]):
                    n += 1
                    reads = [x for x in ev[:i] if x["k"] == "branch" and x["cond"][0] == "call" and x["cond"][1] == QS.path]
                    if not reads or reads[-1]["value"] is not True:
                        ok, why = False, "the timeout message is built on a path where the stop flag was not (last) read as set"
                    # and that read follows the last search of the path
                    srch = [j for j, x in enumerate(ev[:i]) if x["k"] == "call" and x["callee"] == E.path]
                    if reads and srch and ev.index(reads[-1]) < srch[-1]:
                        ok, why = False, "the flag read that justifies the timeout message precedes the last search"
        ctx.ob("R3", "timeout-message-only-when-stopped(%s)" % nm.split("::")[-1], ok and n > 0, ctx.where(F),
               why or "the timeout text is formatted only behind a true stop-flag read taken after the last search (%d events)" % n)
    # ---- R2 ---------------------------------------------------------------
    ctx.fn(ST)
    ok, why, n = True, "", 0
    flag = set()
    for p in Walker(ST, max_visits=2, inline=pol).paths():
        ev = p.events
        for i, e in enumerate(ev):
            if e["k"] != "call" or not e["callee"].endswith("ThreadTimer::start"):
                continue
            n += 1
            # stores into a static before the timer is started, on this path (a helper that stores is walked into)
            st = [x for x in ev[:i] if x["k"] == "call" and x["callee"].endswith("::store") and x["args"] and
                  strip(x["args"][0])[0] == "static"]
            if not st:
                ok, why = False, "a path starts the timer without resetting the stop flag first"
            for x in st:
                flag.add(strip(x["args"][0])[1])
                if not const_false(x["args"][1]):
                    ok, why = False, "start_query_timer stores %s into the stop flag" % show(x["args"][1])
        for e in p.calls():
            if e["callee"].endswith("::store") and e["args"] and strip(e["args"][0])[0] == "static" and not const_false(e["args"][1]):
                ok, why = False, "start_query_timer stores %s into the stop flag" % show(e["args"][1])
    ctx.ob("R2", "reset-before-start", ok and n > 0, ctx.where(ST), why or "the stop flag is written (false) before ThreadTimer::start")
    # the closure / function handed to the timer sets the flag
    cg = CallGraph(prog, crates=["suiron-lib"])
    mw, accs = statics.must_write(prog, cg)
    cl = sorted(c for c in cg.send_closures if c in cg.nodes)
    acc_all = {p_: statics.accesses(b_) for p_, b_ in cg.nodes.items()}
    tokens = statics.generation_tokens(prog, cg, acc_all)
    okt, whyt = bool(cl) and bool(flag), ""
    guarded = []
    for c in cl:
        if flag & mw.get(c, set()):
            continue                       # sets the flag on every path
        # or: sets it on every path on which its own token is still the current one (a cancelled timer that fires late
        # is ignored); then the token must be taken when the timer is started and advanced by cancel_timer
        cb = cg.nodes[c]
        good, nset = True, 0
        tok = None
        for p in Walker(cb, max_visits=2, inline=pol).paths():
            if p.end != "return":
                continue
            tests = [e for e in p.events if e["k"] == "branch" and e["cond"][0] == "binop" and e["cond"][1] in ("Eq", "Ne") and
                     any(strip(x)[0] == "call" and strip(x)[1].endswith("::load") and strip(x)[2] and strip(strip(x)[2][0])[0] == "static"
                         for x in (e["cond"][2], e["cond"][3]))]
            sets = [e for e in p.calls() if (e["callee"].endswith("::store") and e["args"] and strip(e["args"][0])[0] == "static" and
                                             strip(e["args"][0])[1] in flag) or (flag & mw.get(e["callee"], set()))]
            if len(tests) != 1:
                good = False
                continue
            t0 = tests[0]
            ld = next(strip(x) for x in (t0["cond"][2], t0["cond"][3]) if strip(x)[0] == "call" and strip(x)[1].endswith("::load"))
            other = next(strip(x) for x in (t0["cond"][2], t0["cond"][3]) if strip(x) != ld)
            tok = strip(ld[2][0])[1]
            is_cur = (t0["value"] is True) == (t0["cond"][1] == "Eq")
            if not (other[0] == "field" and mentions(other, lambda t: t[0] == "param" and t[1] == 1) and
                    not mentions(other, lambda t: t[0] in ("static", "call"))):
                good = False          # the token compared with must be the one captured when the timer was started
            if is_cur and not sets:
                good = False
            if is_cur and sets:
                nset += 1
        if not good or nset == 0 or tok not in tokens:
            okt, whyt = False, "the closure handed to the timer (%s) neither sets the stop flag on every path nor guards it by a generation token" % c
            continue
        guarded.append((c, tok))
        # the captured token is the one taken by an rmw of the token static in the function that starts the timer
        cap_ok = False
        creator = cg.nodes.get(c.rsplit("::{closure", 1)[0], ST)
        for p in Walker(creator, max_visits=2, inline=pol).paths():
            for e in p.calls():
                if e["callee"].endswith("ThreadTimer::start"):
                    for a in e["args"]:
                        a0 = strip(a)
                        if a0[0] == "closure" and a0[1] == c and a0[2]:
                            cap_ok = all(mentions(x, lambda t: t[0] == "call" and any(t[1].endswith(r) for r in statics.RMW) and
                                                  t[2] and strip(t[2][0]) == ("static", tok)) for x in a0[2])
        if not cap_ok:
            okt, whyt = False, "the token the timer compares with is not taken (read-modify-write of `%s`) where the timer is started" % tok
        # cancel_timer advances the token on every returning path, and only the two timer functions advance it
        adv = True
        for p in Walker(CT, max_visits=2, inline=pol).paths():
            if p.end == "return" and not any(e["callee"].endswith(tuple(statics.RMW)) and e["args"] and strip(e["args"][0]) == ("static", tok)
                                             for e in p.calls()):
                adv = False
        if not adv:
            okt, whyt = False, "cancel_timer does not advance `%s` on every path: a timer it failed to cancel would still stop a later query" % tok
        starters = {x.rsplit("::{closure", 1)[0] for x in cl}        # the functions that start a timer with such a thunk
        allowed = set(S.family(CT.path))
        for st_ in starters:
            allowed |= S.family(st_)
        if not set(tokens[tok]["rmw"]) <= allowed:
            okt, whyt = False, "`%s` is also advanced by %s: a running query's timer could be disarmed" % (
                tok, sorted(set(tokens[tok]["rmw"]) - allowed))
    # thread_timer's cancel() can fail (NotWaiting when it loses a race with the timer thread) and cancel_timer cannot
    # tell: a timer whose cancellation failed fires later.  That is harmless only if its thunk is disarmed by then.
    unguarded = [c for c in cl if c not in [g[0] for g in guarded]]
    ctx.ob("R2", "failed-cancel-harmless", okt and not unguarded, ctx.where(CT),
           "a timer that cancel() failed to stop is ignored when it fires (its token is no longer current)" if (okt and not unguarded) else
           "ThreadTimer::cancel can fail, and the thunk of %s sets the stop flag unconditionally: a timer that was not "
           "really cancelled stops whatever query is running when it fires" % (unguarded or cl))
    ctx.ob("R2", "timer-thunk-sets-flag", okt, ctx.where(ST), whyt or (
        "the closure handed to the timer writes the stop flag on every path (%s)" % cl if not guarded else
        "the closure handed to the timer sets the stop flag whenever its token is still current; the token is taken at start "
        "and advanced by cancel_timer, so a timer that could not be cancelled is ignored when it fires (%s)" % guarded))
    # ---- R5 ---------------------------------------------------------------
    CR = prog.one("knowledge_base::count_rules")
    if CR is None:
        ctx.missing("R5", "count_rules")
    else:
        ctx.fn(CR)
        ok, why, n = True, "", 0
        for p in Walker(CR, max_visits=2).paths():
            first = next((e for e in p.events if e["k"] == "branch"), None)
            if first is None or not (first["cond"][0] == "call" and first["cond"][1] == QS.path):
                ok, why = False, "count_rules does not read the stop flag first"
                continue
            if first["value"] is True:
                n += 1
                r = strip(p.ret) if p.end == "return" else None
                if r is None or r[0] != "const" or r[3] != 0:
                    ok, why = False, "count_rules returns %s although the query was stopped" % (show(r) if r else p.end)
        ctx.ob("R5", "stopped-means-no-clauses", ok and n > 0, ctx.where(CR), why or "query_stopped() -> return 0, before the lookup")
