"""C24 — no undefined behaviour on any API call sequence: audit of every unsafe operation."""
import re
from solver import Solver, node_field_writes, is_none, some_payload, NODE_TY
from callgraph import CallGraph
import statics
from sym import Walker, strip, show, mentions
from facts import callee_name

NEEDS_DEPS = True   # thread_timer is analysed too (RUSTC_WRAPPER)

EXPLANATION = ("All undefined behaviour in safe Rust is excluded by the compiler, so the property reduces to the unsafe "
               "operations of the crate, its binary and its dependency thread_timer. The check inventories every unsafe "
               "operation in MIR (static mut access, raw-pointer dereference, call of an unsafe fn, unsafe impl, inline asm) "
               "outside compiler-generated expansions and requires each to fall under an audited rule: statics are "
               "thread-confined or atomic (thread reachability from Send-bounded closures); raw writes into RefCell "
               "contents target a cell provably different from the protected `&mut self` (ancestor reached through "
               "parent_node links only, which are acyclic by construction, or a dominating pointer-inequality guard); no "
               "reference into a node is live across a call that may cut; raw pointers do not escape; no unsafe Send/Sync. "
               "Any other unsafe operation is reported as unaudited.")
RULES = ("R1 closed-world inventory of unsafe operations; R2 no static is accessed non-atomically both from a thread-entry "
         "closure and from the client thread, no reference to a static mut is created; R3a raw writes differ from the "
         "protected self; R3b no node-derived reference live across a cutting call; R3c raw pointers do not escape; "
         "R4 no unsafe impl Send/Sync; R5 no other unsafe operation (unchecked indexing, transmute, from_raw_parts, ...)")
TRUSTED = ["rustc nightly MIR construction and liveness (MaybeLiveLocals)", "Stacked/Tree Borrows reading of protected "
           "references: a `&mut self` argument is protected for the whole call", "the client uses the API from one thread "
           "(the property's histories are one client thread plus the timer thread)"]

STD_EXP = ("Desugaring(", "AstPass(", "Macro(Bang, \"vec\")", "Macro(Bang, \"format\")", "Macro(Bang, \"format_args\")",
           "Macro(Bang, \"print\")", "Macro(Bang, \"println\")", "Macro(Bang, \"eprintln\")", "Macro(Bang, \"eprint\")",
           "Macro(Bang, \"panic\")", "Macro(Bang, \"write\")", "Macro(Bang, \"writeln\")", "Macro(Bang, \"assert\")",
           "Macro(Bang, \"assert_eq\")", "Macro(Bang, \"assert_ne\")", "Macro(Bang, \"unreachable\")", "Macro(Bang, \"matches\")",
           "Macro(Bang, \"todo\")", "Macro(Bang, \"unimplemented\")", "Macro(Derive", "Macro(Attr, \"derive\")",
           "Macro(Bang, \"$crate::", "Macro(Bang, \"thread_local\")")


BOXI = {"std::boxed::Box", "std::ptr::Unique", "std::ptr::NonNull"}


def compiler_generated(exp):
    return bool(exp) and any(exp.startswith(x) for x in STD_EXP)


def unsafe_ops(body):
    """Unsafe operations of one body: list of dicts {kind, bb, line, what}."""
    out = []
    # raw pointers produced by the compiler's lowering of a Box dereference
    # (`((box.0: Unique).pointer: NonNull) as *const T (Transmute)`) are not user-written unsafe code
    box_ptrs = set()
    for blk in body.blocks:
        for s in blk["stmts"]:
            if s["k"] == "assign" and not s["place"]["p"] and s["rv"]["k"] == "cast" and s["rv"]["ck"] == "Transmute" \
                    and s["rv"]["op"]["k"] in ("copy", "move"):
                pr = s["rv"]["op"]["place"]["p"]
                if pr and all(isinstance(e, dict) and e.get("of") in BOXI for e in pr[-2:]) and len(pr) >= 2:
                    box_ptrs.add(s["place"]["l"])
    # pointers to statics: their dereferences are the `static mut` accesses audited by R2
    for blk in body.blocks:
        for s in blk["stmts"]:
            if s["k"] == "assign" and not s["place"]["p"] and s["rv"]["k"] == "use" and s["rv"]["op"]["k"] == "const" \
                    and "static" in s["rv"]["op"]:
                box_ptrs.add(s["place"]["l"])
    for i, blk in enumerate(body.blocks):
        if blk["cleanup"]:
            continue
        for s in blk["stmts"]:
            if s["k"] != "assign":
                continue
            if compiler_generated(s.get("exp")):
                continue
            pl = s["place"]
            if pl["l"] in box_ptrs:
                continue
            if pl["p"] and pl["p"][0] == "deref" and body.locals[pl["l"]].get("k") == "ptr":
                out.append({"kind": "raw-write", "bb": i, "line": s["line"], "local": pl["l"], "place": pl})
            rv = s["rv"]
            places = []
            if rv["k"] in ("ref", "rawptr", "discriminant"):
                places.append(rv["place"])
            for o in statics._ops_of_rv(rv):
                if o["k"] in ("copy", "move"):
                    places.append(o["place"])
            for p in places:
                if p["l"] in box_ptrs:
                    continue
                if p["p"] and p["p"][0] == "deref" and body.locals[p["l"]].get("k") == "ptr":
                    out.append({"kind": "raw-read", "bb": i, "line": s["line"], "local": p["l"], "place": p})
            if rv["k"] == "cast" and rv["ck"] == "Transmute" and s["place"]["l"] not in box_ptrs and \
                    not (rv["ty"] == "usize" and body.locals[s["place"]["l"]].get("name") is None):
                out.append({"kind": "transmute", "bb": i, "line": s["line"]})
        t = blk["term"]
        if t["k"] == "call" and t["callee"].get("unsafe") and not compiler_generated(t.get("exp")):
            out.append({"kind": "unsafe-call", "bb": i, "line": t["line"], "what": callee_name(t)})
        if t["k"] == "asm":
            out.append({"kind": "asm", "bb": i, "line": t["line"]})
    return out


def node_ref_locals(body):
    """Locals of reference/pointer type whose value points *into* a solution
    node reached through a Ref/RefMut guard (or through &mut self of a node
    method)."""
    refs = set()
    for i, blk in enumerate(body.blocks):
        t = blk["term"]
        if t["k"] == "call":
            c = t["callee"]
            nm = c.get("path", "")
            st = c.get("self_ty") or ""
            if nm in ("std::ops::Deref::deref", "std::ops::DerefMut::deref_mut") and \
                    ("RefMut<" in st or "Ref<" in st) and NODE_TY in st and not t["dest"]["p"]:
                refs.add(t["dest"]["l"])
    changed = True
    while changed:
        changed = False
        for blk in body.blocks:
            for s in blk["stmts"]:
                if s["k"] != "assign" or s["place"]["p"]:
                    continue
                d = s["place"]["l"]
                if d in refs or body.locals[d].get("k") not in ("ref", "ptr"):
                    continue
                rv = s["rv"]
                src = None
                if rv["k"] in ("ref", "rawptr"):
                    # &(*nr).field  /  &(*nr)   (an address inside the node)
                    pl = rv["place"]
                    if pl["l"] in refs and pl["p"] and pl["p"][0] == "deref":
                        # stop at a second deref: that leaves the node (follows a pointer stored in it)
                        if "deref" not in pl["p"][1:]:
                            src = pl["l"]
                elif rv["k"] == "use" and rv["op"]["k"] in ("copy", "move") and not rv["op"]["place"]["p"]:
                    if rv["op"]["place"]["l"] in refs:
                        src = rv["op"]["place"]["l"]
                elif rv["k"] == "cast" and rv["op"]["k"] in ("copy", "move") and not rv["op"]["place"]["p"]:
                    if rv["op"]["place"]["l"] in refs:
                        src = rv["op"]["place"]["l"]
                if src is not None:
                    refs.add(d)
                    changed = True
    return refs


def run(ctx):
    prog = ctx.prog
    S = Solver(prog, ctx)
    if S.setter is None or S.entry is None or S.make_node is None:
        ctx.missing("anchors", "flag setter / solver entry / make_solution_node")
        return
    crates = sorted(prog.crates)
    ctx.extra["crates_analysed"] = crates
    if not any(c.startswith("thread_timer") for c in crates):
        ctx.missing("R1", "facts for the thread_timer dependency")
    # ---- R1 inventory ----------------------------------------------------
    cg = CallGraph(prog)
    inv = []
    for b in prog.bodies:
        ops = unsafe_ops(b)
        for o in ops:
            o["body"] = b
        inv += ops
        for a in statics.accesses(b):
            if a.get("static_mut"):
                inv.append({"kind": "static-mut-" + a["kind"], "bb": a["bb"], "line": a["line"], "body": b, "static": a["static"]})
    ctx.extra["unsafe_inventory"] = {}
    for o in inv:
        k = o["kind"]
        ctx.extra["unsafe_inventory"][k] = ctx.extra["unsafe_inventory"].get(k, 0) + 1
    n_static = sum(1 for o in inv if o["kind"].startswith("static-mut"))
    n_raw = sum(1 for o in inv if o["kind"] in ("raw-write", "raw-read"))
    ctx.floor("R1", n_static, 4, "accesses to static mut items")
    ctx.floor("R1/raw", n_raw, 4, "raw-pointer dereferences")
    audited_fns = S.family(S.setter.path)          # the cut implementation: the setter and what it is split into
    for o in inv:
        b = o["body"]
        if o["kind"] in ("raw-write", "raw-read"):
            if b.path not in audited_fns:
                ctx.ob("R1", "unaudited:%s:%s" % (b.npath, o["kind"]), False, ctx.where(b, o["line"]),
                       "raw-pointer dereference outside the audited cut implementation")
        elif o["kind"] == "unsafe-call" and b.path in audited_fns and o.get("what") in audited_fns:
            pass        # a call, inside the audited cut implementation, of the private unsafe helper it is split into
        elif o["kind"] in ("unsafe-call", "transmute", "asm"):
            ctx.ob("R5", "unaudited:%s:%s" % (b.npath, o.get("what", o["kind"]).split("::")[-1]), False, ctx.where(b, o["line"]),
                   "unsafe operation of an unmodelled kind (%s): nothing is known about its bounds, aliasing or lifetime"
                   % o.get("what", o["kind"]))
    ctx.ob("R1", "inventory-closed", True, "", "%d unsafe operations inventoried in %s: %s" % (
        len(inv), crates, ctx.extra["unsafe_inventory"]))
    unsafe_fns = [b for b in prog.bodies if b.j.get("unsafe_fn") and not (b.path in audited_fns and not b.is_pub)]
    ctx.ob("R5", "no-unsafe-fn-declared", not unsafe_fns, ctx.where(unsafe_fns[0]) if unsafe_fns else "",
           "the crates declare no `unsafe fn` (%d bodies)" % len(prog.bodies))
    # ---- R2 statics and threads -------------------------------------------
    T = cg.reach(list(cg.send_closures))
    ctx.extra["thread_entry_closures"] = sorted(cg.send_closures)
    ctx.floor("R2", len(cg.send_closures), 1, "closures passed under a Send bound (thread entries)")
    pub_roots = [b.path for b in prog.bodies if b.is_pub or b.path == "main"]
    M = cg.reach(pub_roots, avoid=cg.send_closures)
    per_static = {}
    for b in prog.bodies:
        for a in statics.accesses(b):
            st = [s for c in prog.crates.values() for s in c["statics"] if s["path"] == a["static"]]
            mutable = a.get("static_mut") or (st and (st[0]["mutable"] or not st[0]["freeze"]))
            if not mutable:
                continue
            per_static.setdefault(a["static"], []).append((b, a))
    for sname, accs in sorted(per_static.items()):
        decl = [s_ for c in prog.crates.values() for s_ in c["statics"] if s_["path"] == sname]
        if all(a.get("thread_local") for b, a in accs) and (not decl or decl[0].get("thread_local")):
            # one copy per thread, every access goes through the thread-local address: no other thread can name it
            ctx.ob("R2", "thread-local(%s)" % sname.split("::")[-1], True, "",
                   "%d access(es), all through the thread-local address: confined to the accessing thread by construction" % len(accs))
            continue
        nonatomic = [(b, a) for b, a in accs if not a.get("atomic") and a["kind"] in ("read", "write")]
        inT = [(b, a) for b, a in nonatomic if b.path in T]
        inM = [(b, a) for b, a in nonatomic if b.path in M]
        race = bool(inT) and bool(inM) and any(a["kind"] == "write" for b, a in inT + inM)
        w = ""
        if race:
            bt, at = inT[0]
            bm, am = inM[0]
            w = ("`%s` is accessed without synchronisation by %s (reachable from the timer thread's closure) and by %s "
                 "(client thread), with a write: data race" % (sname, bt.npath, bm.npath))
        ctx.ob("R2", "race(%s)" % sname.split("::")[-1], not race, ctx.where(inT[0][0], inT[0][1]["line"]) if race else "",
               w or "%d access(es): %s" % (len(accs), "atomic" if not nonatomic else
                                            "thread-confined (client thread only)" if not inT else "timer thread only"))
        refs = [(b, a) for b, a in accs if a["kind"] == "ref" and a.get("static_mut")]
        ctx.ob("R2", "no-ref(%s)" % sname.split("::")[-1], not refs, ctx.where(refs[0][0], refs[0][1]["line"]) if refs else "",
               "a reference to the static mut is created" if refs else "no reference to the static is created (static mut) / atomic receiver only")
    # ---- R3a raw writes in the setter --------------------------------------
    Tfn = S.setter
    ctx.fn(Tfn)
    me = ("param", 1, Tfn.locals[1].get("name") or "")
    tps = S.paths(Tfn, 3)
    ctx.stats["paths_walked"] += len(tps)
    seen = {}
    for p in tps:
        for idx, e in enumerate(p.events):
            if e["k"] != "write" or not e.get("raw"):
                continue
            tgt = e["place"][1] if e["place"][0] == "field" else e["place"]
            # classify the route from self to the written cell
            route = []
            x = tgt
            while isinstance(x, tuple) and x[0] == "field":
                route.append(x[2])
                x = x[1]
            route.reverse()
            via_head = "head_sn" in route
            only_parent = x == me and all(r in ("parent_node", "Some.0") for r in route) and route
            inst = "via-head_sn" if via_head else ("via-parent_node" if only_parent else "other:" + ".".join(route))
            if only_parent:
                okw, why = True, "target reached through parent_node links only (acyclic by construction, see parent-acyclic)"
            else:
                guard = None
                for g in p.events[:idx]:
                    if g["k"] != "branch" or g["cond"][0] == "variant":
                        continue
                    c = g["cond"]
                    neg = False
                    while c[0] == "unop" and c[1] == "Not":
                        c = c[2]
                        neg = not neg
                    is_eq = (c[0] == "call" and c[1].endswith("ptr::eq")) or (c[0] == "binop" and c[1] in ("Eq", "Ne"))
                    if not is_eq:
                        continue
                    args = c[2] if c[0] == "call" else (c[2], c[3])
                    if len(args) == 2 and {strip(args[0]), strip(args[1])} == {tgt, me}:
                        equal_means = (c[0] == "call") or c[1] == "Eq"
                        val = g["value"] != neg
                        differs = (val is False) if equal_means else (val is True)
                        if differs:
                            guard = g
                okw = guard is not None
                why = ("write through a raw pointer to %s while `&mut self` is protected: by construction "
                       "node.parent.head_sn can be the node itself, and no pointer-inequality guard dominates the write "
                       "(Miri: `t($X) :- g($X), !, $X = 1.`)" % show(tgt)) if not okw else \
                    "dominated by a pointer-inequality guard against self"
            prev = seen.get(inst)
            if prev is None or (prev[0] and not okw):
                seen[inst] = (okw, why, e["line"])
    for inst, (okw, why, line) in sorted(seen.items()):
        ctx.ob("R3a", "raw-write(%s)" % inst, okw, ctx.where(Tfn, line), why)
    ctx.floor("R3a", len(seen), 2, "kinds of raw writes in the flag setter")
    # parent_node acyclic by construction
    bad = None
    M_ = S.make_node
    for b, i, s, f, rv in node_field_writes(prog):
        if f != "parent_node":
            continue
        if b.name == "new" or "Clone" in b.path:
            continue
        if b.path not in S.family(M_.path):
            bad = (b, s)
    if bad is None:
        par = ("param", 4, M_.locals[4].get("name") or "")
        for p in S.paths(M_, 2):
            for e in p.events:
                if e["k"] == "write" and e["field"] == "parent_node":
                    base = e["place"][1]
                    fresh = base[0] == "call" and base[1].endswith("SolutionNode::<'a>::new") or (base[0] == "call" and base[1].endswith("::new"))
                    v = e["value"]
                    okv = is_none(v) or strip(some_payload(v) or ()) == par
                    if not (fresh and okv):
                        bad = (M_, {"line": e["line"]})
    ctx.ob("R3a", "parent-acyclic", bad is None, ctx.where(bad[0], bad[1]["line"]) if bad else "",
           "parent_node is assigned outside the construction of a fresh node" if bad else
           "parent_node is assigned only while the node is a fresh local of make_solution_node, to the already existing "
           "parent: a node is never its own ancestor")
    # ---- R3b liveness across cutting calls ----------------------------------
    lib_cg = CallGraph(prog, crates=["suiron-lib"])
    cutters = lib_cg.callers_reaching(targets={S.setter.path})
    n_sites = 0
    fns = set()
    for p in sorted(cutters):
        b = lib_cg.nodes[p]
        refs = node_ref_locals(b)
        for i, t in b.calls():
            nm = t["callee"].get("resolved") or t["callee"]["path"]
            if nm not in cutters and nm != S.setter.path:
                continue
            if t["target"] is None:
                continue
            n_sites += 1
            fns.add(p)
            live = set(b.blocks[t["target"]]["live_in"])
            # the cut writes `no_backtracking` of this node (and of ancestors) through a raw pointer: that invalidates
            # references covering that field — references to the whole node or to the flag itself.  A reference to
            # another field covers other bytes and is not affected.
            def covers_flag(l):
                to = b.locals[l].get("to", "")
                return to.startswith(NODE_TY) or to == "bool"
            bad_l = sorted(l for l in (live & refs) - {t["dest"]["l"]} if covers_flag(l))
            # the receiver reference of the setter call itself dies with the call
            ctx.ob("R3b", "call(%s->%s@L%d)" % (b.name, nm.split("::")[-1], 0) if False else
                   "call(%s->%s#%d)" % (b.name, nm.split("::")[-1], sum(1 for o in ctx.obs if o["rule"] == "R3b" and
                                                                      o["instance"].startswith("call(%s->%s#" % (b.name, nm.split("::")[-1])))),
                   not bad_l, ctx.where(b, t["line"]),
                   "reference(s) into the node (%s) stay live across a call that can run the cut, which writes the node "
                   "through a raw pointer" % ", ".join(b.local_name(l) + ": " + b.locals[l]["s"] for l in bad_l) if bad_l
                   else "no node-derived reference is live after the call (%d tracked)" % len(refs))
    ctx.floor("R3b", n_sites, 14, "calls that can reach the flag setter")
    ctx.extra["cutting_functions"] = sorted(fns)
    # ---- R3c raw pointers do not escape --------------------------------------
    bad = None
    n_ptr = 0
    for b in prog.bodies:
        ptr_locals = [i for i, l in enumerate(b.locals) if l.get("k") == "ptr" and NODE_TY in l.get("to", "")]
        if not ptr_locals:
            continue
        for i, blk in enumerate(b.blocks):
            if blk["cleanup"]:
                continue
            for s in blk["stmts"]:
                if s["k"] != "assign":
                    continue
                for o in statics._ops_of_rv(s["rv"]):
                    if o["k"] in ("copy", "move") and not o["place"]["p"] and o["place"]["l"] in ptr_locals:
                        n_ptr += 1
                        if s["place"]["p"]:      # stored into memory
                            bad = (b, s["line"], "a raw node pointer is stored into memory")
                        elif s["place"]["l"] == 0:
                            bad = (b, s["line"], "a raw node pointer is returned")
            t = blk["term"]
            if t["k"] == "call":
                nm = callee_name(t)
                for a in t["args"]:
                    if a["k"] in ("copy", "move") and not a["place"]["p"] and a["place"]["l"] in ptr_locals:
                        n_ptr += 1
                        if not (nm.endswith("ptr::eq") or "as_ptr" in nm or (b.path in audited_fns and nm in audited_fns)):
                            bad = (b, t["line"], "a raw node pointer is passed to %s" % nm)
    ctx.ob("R3c", "raw-pointers-stay-local", bad is None, ctx.where(bad[0], bad[1]) if bad else "",
           bad[2] if bad else "raw node pointers are only dereferenced or compared in the function that obtained them")
    # ---- R4 ---------------------------------------------------------------------
    bad = [i for c in prog.crates.values() for i in c["impls"] if i["unsafe"] and i["trait"] and
           (i["trait"].endswith("::Send") or i["trait"].endswith("::Sync"))]
    other_unsafe = [i for c in prog.crates.values() for i in c["impls"] if i["unsafe"] and i not in bad and
                    not compiler_generated(i.get("exp"))]
    ctx.ob("R4", "no-unsafe-send-sync", not bad and not other_unsafe, "",
           "unsafe impl(s): %s" % [(i["trait"], i["self_ty"]) for i in bad + other_unsafe] if bad or other_unsafe else
           "no hand-written unsafe impl in %s" % crates)
