"""Role-based lookup of the solver's functions and shared helpers for the
search rules (C01-C05, C22-C24)."""
from sym import Walker, strip, show, mentions, unclone, TRANSPARENT, CLONE

NODE_TY = "solution_node::SolutionNode"
STDOUT_FNS = {"std::io::_print", "std::io::stdout", "std::io::Stdout::write", "std::io::Write::write_all"}
# private functions the solver rules name themselves (never inlined into their callers)
KEEP = ()


def is_verdict_ty(s):
    s = s.replace(" ", "")
    return s.startswith("std::option::Option<std::rc::Rc<std::vec::Vec<std::option::Option<std::rc::Rc<unifiable::Unifiable>>>>>")


def node_arg(body, i=1):
    return len(body.locals) > i and ("RefCell<" + NODE_TY) in body.locals[i]["s"]


class Solver:
    """Locates the functions the rules talk about.  Every attribute may be
    None (anchor missing); rules must fail closed on that."""

    def __init__(self, prog, ctx=None):
        self.prog = prog
        # thorough tier: one more unrolling of every loop
        self.extra_unroll = 1 if (ctx is not None and getattr(ctx, "tier", "quick") == "thorough") else 0
        lib = prog.lib_bodies()
        calls = {}
        for b in lib:
            calls[b.path] = set()
            for bb, t in b.calls():
                c = t["callee"]
                if not c.get("indirect"):
                    calls[b.path].add(c.get("resolved") or c["path"])
        self.calls = calls
        self.crate_fns = {b.path for b in lib}
        verdict1 = [b for b in lib if b.kind == "Fn" and b.mir["arg_count"] == 1 and node_arg(b) and is_verdict_ty(b.ret_ty)]
        # clause fetchers, by type: fn(&KnowledgeBase, ..) -> Rule
        self.fetchers = {b.path for b in lib if b.kind == "Fn" and b.ret_ty == "rule::Rule" and
                         any("HashMap<std::string::String, std::vec::Vec<rule::Rule>>" in b.locals[i]["s"]
                             for i in range(1, b.mir["arg_count"] + 1))}
        # the solver entry fetches clauses — itself, or in private functions it is split into (a phase function, a
        # nested module); other public functions are not looked through
        by_path = {b.path: b for b in lib}

        def private_reach(path):
            seen, todo = set(), [path]
            while todo:
                x = todo.pop()
                for y in calls.get(x, ()):
                    yb = by_path.get(y)
                    if yb is not None and not yb.is_pub and yb.kind in ("Fn", "AssocFn") and y not in seen:
                        seen.add(y)
                        todo.append(y)
            return seen
        entry = [b for b in verdict1 if calls[b.path] & self.fetchers]
        if not entry:
            entry = [b for b in verdict1 if b.is_pub and any(calls[y] & self.fetchers for y in private_reach(b.path))]
        self.entry = entry[0] if len(entry) == 1 else None
        # the entry together with the private functions it is split into
        self.entry_family = ({self.entry.path} | private_reach(self.entry.path)) if self.entry is not None else set()
        self.and_fn = self.or_fn = self.bip_fn = None
        self.paths_cache = {}
        import inline
        # roles are found on the entry's paths.  At this stage only small private glue (a dispatch helper between the
        # entry and the per-kind functions) is walked into; any sizeable function that takes a node and returns a verdict
        # is a candidate role and stays a call, whatever its name or visibility
        cand_roles = tuple(b.path for b in lib if b.kind == "Fn" and b.mir["arg_count"] >= 1 and node_arg(b) and
                           is_verdict_ty(b.ret_ty) and len(b.blocks) > 40)
        self.inline = inline.helpers(prog, keep=KEEP + cand_roles + tuple(self.fetchers), max_blocks=40)
        if self.entry is not None:
            for p in Walker(self.entry, max_visits=2 + self.extra_unroll, inline=self.inline).paths():
                kinds = goal_kinds(p)
                if p.end == "return" and p.ret[0] == "call":
                    tgt = [b for b in lib if b.path == p.ret[1]]
                    if not tgt:
                        continue
                    if kinds.get("op") == "And":
                        self.and_fn = tgt[0]
                    elif kinds.get("op") == "Or":
                        self.or_fn = tgt[0]
                    elif kinds.get("goal") == "BuiltInGoal":
                        self.bip_fn = tgt[0]
        # from here on private helpers are walked into, but never one of the solver's own functions (whatever its
        # name or visibility) nor a clause fetcher
        roles = tuple(b.path for b in (self.entry, self.and_fn, self.or_fn, self.bip_fn) if b is not None) + tuple(self.fetchers)
        self.inline = inline.helpers(prog, keep=KEEP + roles)
        # flag setter: a method writing `no_backtracking` through a raw pointer
        self.setter = None
        for b in lib:
            if b.kind != "AssocFn":
                continue
            raw_write = False
            for blk in b.blocks:
                for s in blk["stmts"]:
                    if s["k"] == "assign" and s["place"]["p"]:
                        pr = s["place"]["p"]
                        if any(isinstance(e, dict) and e.get("field") == "no_backtracking" for e in pr) and \
                                b.locals[s["place"]["l"]].get("k") == "ptr":
                            raw_write = True
            if raw_write:
                self.setter = b
                self.raw_writers = getattr(self, "raw_writers", []) + [b]
        # when the raw write lives in a private helper, the setter is the method the built-in dispatcher calls, which
        # reaches that helper through private functions only (the helper is walked into on the setter's paths)
        if self.setter is not None and not self.setter.is_pub and self.bip_fn is not None:
            for b in lib:
                if b.path in calls.get(self.bip_fn.path, ()) and b.kind == "AssocFn" and self.setter.path in private_reach(b.path):
                    self.setter = b
        mk = [b for b in lib if b.kind == "Fn" and ("Rc<std::cell::RefCell<" + NODE_TY) in b.ret_ty.replace(" ", "")
              and b.ret_ty.replace(" ", "").startswith("std::rc::Rc<")]
        self.make_node = next((b for b in mk if b.mir["arg_count"] == 4), None)
        self.make_base = next((b for b in mk if b.mir["arg_count"] == 2), None)
        self.flag_readers = set()
        for b in lib:
            # helper returning the node's flag: fn(&Rc<RefCell<Node>>) -> bool
            if b.kind == "Fn" and b.ret_ty == "bool" and b.mir["arg_count"] == 1 and node_arg(b):
                ps = self.paths(b, 2)
                if ps and all(p.end == "return" and strip(p.ret) == ("field", ("param", 1, b.locals[1].get("name") or ""), "no_backtracking")
                              for p in ps):
                    self.flag_readers.add(b.path)

    def family(self, path):
        """A function together with the private functions that are reached only through it (what it was split into):
        rules that confine something to one function confine it to this set."""
        if not hasattr(self, "_callers"):
            self._callers = {}
            for p_, cs in self.calls.items():
                for c in cs:
                    self._callers.setdefault(c, set()).add(p_)
            self._by_path = {b.path: b for b in self.prog.lib_bodies()}
        fam = {path}
        changed = True
        while changed:
            changed = False
            for x in list(fam):
                for y in self.calls.get(x, ()):
                    yb = self._by_path.get(y)
                    if y in fam or yb is None or yb.is_pub or yb.kind not in ("Fn", "AssocFn"):
                        continue
                    if self._callers.get(y, set()) <= fam:
                        fam.add(y)
                        changed = True
        return fam

    def paths(self, body, max_visits=2):
        max_visits += self.extra_unroll
        key = (body.path, max_visits)
        if key not in self.paths_cache:
            self.paths_cache[key] = Walker(body, max_visits=max_visits, inline=self.inline).paths()
        return self.paths_cache[key]

    # ---- functions that cannot matter to the search ----------------------------------------------------------
    WRITE_ONCE = ("std::sync::OnceLock<", "std::sync::LazyLock<", "std::sync::Once", "std::cell::OnceCell<", "std::cell::LazyCell<")

    def _neutral_setup(self):
        if hasattr(self, "_neutral"):
            return
        from callgraph import CallGraph
        import statics as st_
        self._cg = CallGraph(self.prog, crates=["suiron-lib"])
        self._acc = {p: st_.accesses(b) for p, b in self._cg.nodes.items()}
        self._neutral = {}
        roles = {getattr(self, r).path for r in ("entry", "and_fn", "or_fn", "bip_fn", "setter", "make_node", "make_base")
                 if getattr(self, r) is not None} | set(self.fetchers)
        self._roles = roles
        reach = self._cg.reach([self.entry.path]) if self.entry is not None else set()
        self._search_reads = {a["static"] for p in reach for a in self._acc.get(p, []) if a["kind"] in ("read", "ref")}
        tys = {s_["path"]: s_["ty"] for s_ in (self.prog.lib or {}).get("statics", [])}
        self.write_once_statics = {p for p, ty in tys.items() if ty.replace(" ", "").startswith(tuple(x for x in self.WRITE_ONCE))}

    def neutral(self, path, _stack=()):
        """Can a call of this crate function be ignored by rules about the search?  Yes when it is not one of the
        solver's own functions, cannot reach node state through its parameters (no `&mut`, `RefCell`, `Cell`, raw
        pointer), writes no static that search code reads (write-once cells initialised from process-wide data
        excepted; counters nobody in the search reads are fine), prints nothing to stdout, and calls only such
        functions."""
        self._neutral_setup()
        if path in self._neutral:
            return self._neutral[path]
        if path in _stack:
            return True          # optimistic inside a cycle; the cycle's entry decides
        b = self._cg.nodes.get(path)
        ok = b is not None and path not in self._roles
        if ok:
            for i in range(1, b.mir["arg_count"] + 1):
                if b.kind == "Closure" and i == 1:
                    continue
                ty = b.locals[i]["s"]
                if "&mut" in ty or "RefCell<" in ty or "Cell<" in ty or "*mut" in ty:
                    ok = False
        if ok:
            for a in self._acc.get(path, []):
                if a["kind"] in ("write", "ref") or a.get("unknown"):
                    if a["static"] in self.write_once_statics:
                        continue
                    if a.get("feeds_only_atomic"):
                        continue         # the atomic load / store it feeds is listed on its own
                    if a["kind"] == "ref" and not a.get("static_mut") and a["static"] not in self._search_reads:
                        continue
                    if a["static"] in self._search_reads:
                        ok = False
        if ok:
            for bb, t in b.calls():
                c = t["callee"]
                if c.get("indirect"):
                    ok = False
                    break
                nm = c.get("resolved") or c.get("path") or ""
                if nm in self._cg.nodes:
                    if not self.neutral(nm, _stack + (path,)):
                        ok = False
                        break
                elif nm in STDOUT_FNS:
                    ok = False
                    break
                for ca in c.get("closure_args", []):
                    if ca["closure"] in self._cg.nodes and not self.neutral(ca["closure"], _stack + (path,)):
                        ok = False
                        break
        if not _stack:
            self._neutral[path] = ok
        return ok

    def effectful(self, e):
        """A call event that can matter to the search: a call into the crate (it may search, fetch clauses, mutate
        nodes) that was not walked into, or something written to stdout.  Calls of std functions on values the path
        already accounts for (formatting, atomics of statistics counters, environment lookups, a trace on stderr) are
        not — stores into node fields and statics are tracked separately as write events / by C22's inventory."""
        if e.get("inlined"):
            return False
        c = e["callee"]
        return (c in self.crate_fns and not self.neutral(c)) or c in STDOUT_FNS

    def is_fetch(self, callee):
        return callee in self.fetchers

    def sn(self, body):
        return ("param", 1, body.locals[1].get("name") or "")

    def is_flag_read(self, body, cond):
        """cond is a read of *this* node's cut flag."""
        c = strip(cond)
        sn = self.sn(body)
        if c == ("field", sn, "no_backtracking"):
            return True
        if c[0] == "call" and c[1] in self.flag_readers and len(c[2]) == 1 and strip(c[2][0]) == sn:
            return True
        return False


def goal_kinds(path):
    """{'goal': variant of Goal, 'op': variant of Operator} decided on a path."""
    out = {}
    for c, v, bb in path.decisions:
        if c[0] != "variant" or not isinstance(v, str):
            continue
        if v in ("OperatorGoal", "ComplexGoal", "BuiltInGoal") and "goal" not in out:
            out["goal"] = v
        elif v in ("And", "Or", "Time", "Not") and "op" not in out:
            out["op"] = v
    return out


def real_calls(path):
    """Call events that are not smart-pointer plumbing."""
    return [e for e in path.events if e["k"] == "call" and e["decl"] not in TRANSPARENT and e["decl"] not in CLONE
            and not e["callee"].endswith("::drop") and not e.get("inlined")]     # an inlined call is represented by its own events


def is_none(t):
    return isinstance(t, tuple) and t[0] == "agg" and t[1].endswith("Option") and t[2] == "None"


def some_payload(t):
    if isinstance(t, tuple) and t[0] == "agg" and t[1].endswith("Option") and t[2] == "Some":
        return dict(t[3]).get("0")
    return None


def str_cell(path):
    """For `match s { "lit" => .. }` dispatch: the literal whose comparison
    was decided True on this path (None = default arm)."""
    for c, v, bb in path.decisions:
        if c[0] == "call" and c[1].endswith("::eq") and v is True:
            for a in c[2]:
                if a[0] == "const" and a[2].startswith('"'):
                    return a[2].strip('"')
    return None


def const_true(t):
    return isinstance(t, tuple) and t[0] == "const" and t[3] == 1 and t[1] == "bool"


def const_false(t):
    return isinstance(t, tuple) and t[0] == "const" and t[3] == 0 and t[1] == "bool"


def node_field_writes(prog):
    """Every MIR store into a field of SolutionNode anywhere in the lib:
    (body, bb, stmt-or-terminator, field, rvalue-or-None)."""
    out = []
    for b in prog.lib_bodies():
        for i, blk in enumerate(b.blocks):
            if blk["cleanup"]:
                continue
            for s in blk["stmts"]:
                if s["k"] != "assign":
                    continue
                pr = s["place"]["p"]
                if pr and isinstance(pr[-1], dict) and pr[-1].get("of") == NODE_TY and "field" in pr[-1]:
                    out.append((b, i, s, pr[-1]["field"], s["rv"]))
                if s["rv"]["k"] in ("ref", "rawptr") and (s["rv"].get("bk") == "mut" or "Mut" in s["rv"].get("pk", "")):
                    pr2 = s["rv"]["place"]["p"]
                    if pr2 and isinstance(pr2[-1], dict) and pr2[-1].get("of") == NODE_TY and "field" in pr2[-1]:
                        out.append((b, i, s, pr2[-1]["field"], {"k": "mutborrow"}))
                if s["rv"]["k"] == "aggregate" and s["rv"].get("adt") == NODE_TY:
                    for f, o in zip(s["rv"]["fields"], s["rv"]["ops"]):
                        out.append((b, i, s, f, {"k": "use", "op": o, "ctor": True}))
            t = blk["term"]
            if t["k"] == "call":
                pr = t["dest"]["p"]
                if pr and isinstance(pr[-1], dict) and pr[-1].get("of") == NODE_TY and "field" in pr[-1]:
                    out.append((b, i, t, pr[-1]["field"], None))
    return out


def outcome_of(path, res):
    """How the Option-valued result `res` (a provenance term) was found to be on this path:
    "Some", "None", or None when the path never examined it.  Understands `match`, `if let`,
    `is_some()` / `is_none()` tests."""
    res0 = unclone(res)
    for c, v, bb in path.decisions:
        if c[0] == "variant" and v in ("Some", "None") and (c[1] == res or unclone(c[1]) == res0):
            return v
    for e in path.events:
        if e["k"] != "branch" or e["cond"][0] == "variant":
            continue
        c, neg = e["cond"], False
        while c[0] == "unop" and c[1] == "Not":
            c, neg = c[2], not neg
        if c[0] == "call" and len(c[2]) == 1 and (strip(c[2][0]) == res or unclone(c[2][0]) == res0):
            val = (e["value"] is True) != neg
            if c[1].endswith("::is_some"):
                return "Some" if val else "None"
            if c[1].endswith("::is_none"):
                return "None" if val else "Some"
    return None


_CMP = {"Eq": lambda a, b: a == b, "Ne": lambda a, b: a != b, "Lt": lambda a, b: a < b, "Le": lambda a, b: a <= b,
        "Gt": lambda a, b: a > b, "Ge": lambda a, b: a >= b}


def emptiness_test(ev):
    """A branch event that is taken exactly when some collection is empty (`len == 0`, `!(len > 0)`, `len < 1`,
    `is_empty()`): returns the collection term, else None."""
    if ev.get("k") != "branch":
        return None
    c, v = ev["cond"], ev["value"]
    neg = False
    while isinstance(c, tuple) and c[0] == "unop" and c[1] == "Not":
        c, neg = c[2], not neg
    if not isinstance(v, bool):
        return None
    v = v != neg
    if c[0] == "call" and c[1].endswith("::is_empty") and len(c[2]) == 1:
        return strip(c[2][0]) if v else None
    if c[0] != "binop" or c[1] not in _CMP:
        return None
    a, b = strip(c[2]), strip(c[3])
    def islen(t):
        return t[0] == "call" and t[1].endswith("::len") and len(t[2]) == 1
    def const(t):
        return t[3] if t[0] == "const" and isinstance(t[3], int) else None
    if islen(a) and const(b) is not None:
        f = lambda n: _CMP[c[1]](n, const(b))
        coll = a
    elif islen(b) and const(a) is not None:
        f = lambda n: _CMP[c[1]](const(a), n)
        coll = b
    else:
        return None
    if f(0) == v and all(f(n) != v for n in (1, 2, 3, 1000)):
        return strip(coll[2][0])
    return None
