"""Accesses to `static` items in MIR, and must-write summaries.

An access is found by following, inside a function, the locals that hold the
address of a static (`_p = const {alloc: &STATIC}`):
  (*_p) = v                     write        (static mut)
  v = (*_p) / use of (*_p)      read
  _r = &(*_p) / &raw (*_p)      reference taken (kind "ref")
  AtomicX::load(_p)             read;  store -> write;  swap / fetch_* /
  compare_exchange* -> read+write;  any other call receiving the address ->
  read+write (unknown).
"""
from cfg import BodyCfg

ATOMIC_READ = ("::load",)
ATOMIC_WRITE = ("::store",)
ATOMIC_RW = ("::swap", "::fetch_", "::compare_exchange", "::compare_and_swap", "::get_mut", "::into_inner")


def _ops_of_rv(rv):
    k = rv["k"]
    if k in ("use", "cast", "repeat"):
        return [rv["op"]]
    if k == "binop":
        return [rv["l"], rv["r"]]
    if k == "unop":
        return [rv["x"]]
    if k == "aggregate":
        return rv["ops"]
    return []


def accesses(body):
    """List of dicts {static, kind: read|write|ref, bb, line, atomic, mutable_static}."""
    out = []
    holder = {}      # local -> static path (address holders)
    meta = {}
    tls = set()      # statics reached through a thread-local address: one copy per thread
    # pass 1: direct holders
    changed = True
    rounds = 0
    while changed and rounds < 8:
        changed = False
        rounds += 1
        for blk in body.blocks:
            for s in blk["stmts"]:
                if s["k"] != "assign" or s["place"]["p"]:
                    continue
                rv = s["rv"]
                src = None
                if rv["k"] == "use" and rv["op"]["k"] == "const" and "static" in rv["op"]:
                    src = rv["op"]["static"]
                    meta[src] = rv["op"].get("static_mut", False)
                elif rv["k"] == "use" and rv["op"]["k"] in ("copy", "move") and not rv["op"]["place"]["p"] and \
                        rv["op"]["place"]["l"] in holder:
                    src = holder[rv["op"]["place"]["l"]]
                elif rv["k"] in ("ref", "rawptr") and rv["place"]["l"] in holder and rv["place"]["p"] == ["deref"]:
                    src = holder[rv["place"]["l"]]
                elif rv["k"] == "cast" and rv["op"]["k"] in ("copy", "move") and not rv["op"]["place"]["p"] and \
                        rv["op"]["place"]["l"] in holder:
                    src = holder[rv["op"]["place"]["l"]]
                elif rv["k"] == "tlsref":
                    src = rv["static"]
                    meta[src] = True
                    tls.add(src)
                if src is not None and holder.get(s["place"]["l"]) != src:
                    holder[s["place"]["l"]] = src
                    changed = True
    for i, blk in enumerate(body.blocks):
        if blk["cleanup"]:
            continue
        for s in blk["stmts"]:
            if s["k"] != "assign":
                continue
            pl = s["place"]
            if pl["l"] in holder and pl["p"] and pl["p"][0] == "deref":
                out.append({"static": holder[pl["l"]], "kind": "write", "bb": i, "line": s["line"], "atomic": False})
            rv = s["rv"]
            for o in _ops_of_rv(rv):
                if o["k"] in ("copy", "move") and o["place"]["l"] in holder and o["place"]["p"] and o["place"]["p"][0] == "deref":
                    out.append({"static": holder[o["place"]["l"]], "kind": "read", "bb": i, "line": s["line"], "atomic": False})
            if rv["k"] in ("ref", "rawptr") and rv["place"]["l"] in holder and rv["place"]["p"] == ["deref"]:
                # taking a reference to the static's value (for atomics this is the normal receiver)
                out.append({"static": holder[rv["place"]["l"]], "kind": "ref", "bb": i, "line": s["line"], "atomic": False,
                            "mutable_ref": rv.get("bk") == "mut" or "Mut" in rv.get("pk", ""),
                            "dest": s["place"]["l"] if not s["place"]["p"] else None})
            if rv["k"] == "discriminant" and rv["place"]["l"] in holder:
                out.append({"static": holder[rv["place"]["l"]], "kind": "read", "bb": i, "line": s["line"], "atomic": False})
        t = blk["term"]
        if t["k"] == "call":
            for a in t["args"]:
                if a["k"] in ("copy", "move") and a["place"]["l"] in holder and not a["place"]["p"]:
                    st = holder[a["place"]["l"]]
                    c = t["callee"]
                    nm = (c.get("resolved") or c.get("path") or "")
                    atomic = "sync::atomic" in nm
                    kinds = ["read", "write"]
                    if atomic:
                        if any(nm.endswith(x) for x in ATOMIC_READ):
                            kinds = ["read"]
                        elif any(nm.endswith(x) for x in ATOMIC_WRITE):
                            kinds = ["write"]
                    for k in kinds:
                        out.append({"static": st, "kind": k, "bb": i, "line": t["line"], "atomic": atomic, "via": nm})
                if a["k"] in ("copy", "move") and a["place"]["l"] in holder and a["place"]["p"] and a["place"]["p"][0] == "deref":
                    out.append({"static": holder[a["place"]["l"]], "kind": "read", "bb": i, "line": t["line"], "atomic": False})
    for a in out:
        a["static_mut"] = meta.get(a["static"], False)
        a["thread_local"] = a["static"] in tls
    # a shared reference that is only ever the receiver of atomic calls (each recorded separately as a read / write of
    # the static) adds nothing of its own
    for a in out:
        if a["kind"] == "ref" and not a["mutable_ref"] and a.get("dest") is not None:
            a["feeds_only_atomic"] = _only_atomic_receiver(body, a["dest"])
    return out


def _mentions_local(j, l):
    if isinstance(j, dict):
        if j.get("l") == l and "p" in j:
            return True
        return any(_mentions_local(v, l) for v in j.values())
    if isinstance(j, list):
        return any(_mentions_local(v, l) for v in j)
    return False


def _only_atomic_receiver(body, l):
    defs = 0
    for blk in body.blocks:
        for s in blk["stmts"]:
            if s["k"] != "assign":
                if s["k"] not in ("storage_live", "storage_dead", "nop") and _mentions_local(s, l):
                    return False
                continue
            if s["place"]["l"] == l and not s["place"]["p"]:
                defs += 1
                continue
            if _mentions_local(s, l):
                return False
        t = blk["term"]
        if t["k"] == "call":
            nm = t["callee"].get("resolved") or t["callee"].get("path") or ""
            if _mentions_local(t.get("args", []), l):
                if "sync::atomic" not in nm:
                    return False
                if not all(a["k"] in ("copy", "move") and not a["place"]["p"] for a in t["args"] if _mentions_local(a, l)):
                    return False
            if _mentions_local(t.get("dest", {}), l) or _mentions_local(t["callee"], l):
                return False
        elif _mentions_local(t, l):
            return False
    return defs == 1


def must_write(prog, cg):
    """path -> set of statics written on *every* path from entry to return
    (directly or through callees), by fixpoint over the call graph."""
    acc = {p: accesses(b) for p, b in cg.nodes.items()}
    mw = {p: set() for p in cg.nodes}
    cfgs = {}
    changed = True
    it = 0
    while changed and it < 20:
        changed = False
        it += 1
        for p, b in cg.nodes.items():
            cfg = cfgs.get(p)
            if cfg is None:
                cfg = cfgs[p] = BodyCfg(b)
            # per-block gen
            gen = [set() for _ in b.blocks]
            for a in acc[p]:
                if a["kind"] == "write":
                    gen[a["bb"]].add(a["static"])
            for i, blk in enumerate(b.blocks):
                t = blk["term"]
                if t["k"] == "call" and not t["callee"].get("indirect"):
                    nm = t["callee"].get("resolved") or t["callee"]["path"]
                    if nm in mw:
                        gen[i] |= mw[nm]
            # forward must analysis
            universe = set()
            for g in gen:
                universe |= g
            IN = [set(universe) for _ in b.blocks]
            OUT = [set(universe) for _ in b.blocks]
            IN[0] = set()
            work = True
            while work:
                work = False
                for i in sorted(cfg.live):
                    if i != 0:
                        preds = [q for q in cfg.pred[i] if q in cfg.live]
                        new_in = set(universe)
                        for q in preds:
                            new_in &= OUT[q]
                        if not preds:
                            new_in = set()
                    else:
                        new_in = set()
                    new_out = new_in | gen[i]
                    if new_in != IN[i] or new_out != OUT[i]:
                        IN[i], OUT[i] = new_in, new_out
                        work = True
            res = set(universe)
            if not cfg.returns:
                res = set()
            for r in cfg.returns:
                res &= OUT[r]
            if res != mw[p]:
                mw[p] = res
                changed = True
    return mw, acc


RMW = ("::fetch_add", "::fetch_sub", "::swap", "::compare_exchange", "::compare_exchange_weak", "::fetch_update")


def generation_tokens(prog, cg, acc):
    """Statics used only as a *generation token*: an atomic counter that is advanced by read-modify-write operations and
    whose plain loads are used for nothing but an equality test against a value the function already holds (a captured
    token).  Such a static carries no state from one query to the next that any query can observe: every user takes a
    fresh token and only asks "is mine still the current one?".  Returns {static path: {"rmw": [fn..], "tests": [fn..]}}."""
    from sym import Walker, strip, mentions
    per = {}
    for p, lst in acc.items():
        for a in lst:
            per.setdefault(a["static"], []).append((p, a))
    out = {}
    for st, uses in per.items():
        ok = True
        rmw_fns, test_fns = set(), set()
        load_fns = set()
        for p, a in uses:
            if a["kind"] == "ref" and not a.get("mutable_ref"):
                continue            # the receiver reference of an atomic call, recorded separately as the call
            if not a.get("atomic"):
                ok = False
                break
            via = a.get("via", "")
            if any(via.endswith(x) or x + "::" in via for x in RMW):
                rmw_fns.add(p)
            elif via.endswith("::load"):
                load_fns.add(p)
            else:
                ok = False          # a plain store (or anything else) could move the token backwards
                break
        if not ok or not rmw_fns or not load_fns:
            continue
        for p in load_fns:
            b = cg.nodes.get(p)
            if b is None:
                ok = False
                break
            for path in Walker(b, max_visits=2).paths():
                loads = [e for e in path.calls() if e["callee"].endswith("::load") and e["args"] and strip(e["args"][0]) == ("static", st)]
                for ld in loads:
                    r = ld["result"]
                    for e in path.events:
                        if e is ld:
                            continue
                        if e["k"] == "branch":
                            c = e["cond"]
                            if mentions(c, lambda t: t == r):
                                good = c[0] == "binop" and c[1] in ("Eq", "Ne") and (strip(c[2]) == r or strip(c[3]) == r)
                                other = strip(c[3]) if good and strip(c[2]) == r else (strip(c[2]) if good else None)
                                if not good or mentions(other, lambda t: t[0] == "static"):
                                    ok = False
                        elif e["k"] == "call" and any(mentions(x, lambda t: t == r) for x in e["args"]):
                            ok = False
                        elif e["k"] == "write" and mentions(e["value"], lambda t: t == r):
                            ok = False
                    if path.end == "return" and path.ret is not None and mentions(path.ret, lambda t: t == r):
                        # returning the *outcome of the test* (`fn is_current(self) -> bool { ID.load() == self.0 }`) is
                        # fine; returning the token value itself is not
                        rr = strip(path.ret)
                        if not (rr[0] == "binop" and rr[1] in ("Eq", "Ne") and (strip(rr[2]) == r or strip(rr[3]) == r) and
                                not mentions(strip(rr[3]) if strip(rr[2]) == r else strip(rr[2]), lambda t: t[0] == "static")):
                            ok = False
            test_fns.add(p)
        if ok:
            out[st] = {"rmw": sorted(rmw_fns), "tests": sorted(test_fns)}
    return out
