"""Path-sensitive provenance analysis over MIR.

The walker enumerates the CFG paths of one function (every block visited at
most `max_visits` times per path), carrying

  * an environment  local -> provenance term (where the value came from),
  * variant refinements  place term -> set of enum variants still possible
    (from `switchInt(discriminant(p))` edges and `x == UnitVariant` tests),
  * the branch decisions taken, and
  * the events on the way: calls (with the provenance of each argument),
    stores through references/pointers, asserts, the returned value.

Nothing is executed and no value is computed: terms only say *which place,
parameter, call result or constant* a value is, which is what the rules ask
about (argument provenance, dispatch tables, ordering of effects).

Provenance terms (tuples):
  ("param", i, name)            function parameter i
  ("undef", l)                  a local never assigned on this path
  ("const", ty, repr, int)      constant (int is None when not a scalar)
  ("static", path)              address of a static
  ("field", base, name)         field / variant payload ("Some.0")
  ("index", base, idx)
  ("call", callee, args, site)  result of a call; site = (bb, visit)
  ("clone", x)                  Clone::clone(x)
  ("agg", adt, variant, fields) enum/struct literal; fields = ((name, term)..)
  ("tuple", elems) ("closure", path, caps) ("array", elems)
  ("binop", op, l, r) ("unop", op, x) ("cast", x, ty, ck) ("discr", x, variants)
References and dereferences are transparent (`&p`, `*p` are `p`), as are the
smart-pointer accessors listed in TRANSPARENT.
"""
from facts import callee_name, callee_decl

# callee (declared path) -> index of the argument whose provenance is returned
TRANSPARENT = {
    "std::ops::Deref::deref": 0,
    "std::ops::DerefMut::deref_mut": 0,
    "std::cell::RefCell::<T>::borrow": 0,
    "std::cell::RefCell::<T>::borrow_mut": 0,
    "std::borrow::Borrow::borrow": 0,
    "std::borrow::BorrowMut::borrow_mut": 0,
    "std::convert::AsRef::as_ref": 0,
    "std::convert::AsMut::as_mut": 0,
    "std::cell::RefCell::<T>::as_ptr": 0,
    "std::rc::Rc::<T>::new": 0,
    "std::boxed::Box::<T>::new": 0,
    "std::cell::RefCell::<T>::new": 0,
    "std::string::String::as_str": 0,
    "std::convert::Into::into": 0,
    "std::convert::From::from": 0,
    "std::iter::IntoIterator::into_iter": 0,
    # Option<T> -> Option<&T> / Option<&T::Target>: the same option seen through a reference
    "std::option::Option::<T>::as_ref": 0,
    "std::option::Option::<T>::as_mut": 0,
    "std::option::Option::<T>::as_deref": 0,
    "std::option::Option::<T>::as_deref_mut": 0,
    "std::result::Result::<T, E>::as_ref": 0,
    # mem::take(&mut x) / mem::replace(&mut x, y) hand out the value x held
    "std::mem::take": 0,
    "std::mem::replace": 0,
}
MAX_INLINE_DEPTH = 3
CLONE = {"std::clone::Clone::clone", "std::borrow::ToOwned::to_owned", "std::string::ToString::to_string",
         "std::option::Option::<&T>::cloned", "std::option::Option::<&T>::copied",
         "std::option::Option::<&mut T>::cloned", "std::option::Option::<&mut T>::copied"}


FN_CALL_DECLS = {"std::ops::Fn::call", "std::ops::FnMut::call_mut", "std::ops::FnOnce::call_once"}
_OPT, _RES = "std::option::Option", "std::result::Result"
_O, _R = ("Some", "None"), ("Ok", "Err")
# decl -> what the combinator returns on each variant of its receiver
COMBINATORS = {
    "std::option::Option::<T>::map": {"n": 2, "variants": _O, "ok": ("apply", 1, True, (_OPT, "Some")), "err": ("wrap", _OPT, "None", None)},
    "std::option::Option::<T>::and_then": {"n": 2, "variants": _O, "ok": ("apply", 1, True, None), "err": ("wrap", _OPT, "None", None)},
    "std::option::Option::<T>::map_or": {"n": 3, "variants": _O, "ok": ("apply", 2, True, None), "err": ("arg", 1)},
    "std::option::Option::<T>::map_or_else": {"n": 3, "variants": _O, "ok": ("apply", 2, True, None), "err": ("apply", 1, False, None)},
    "std::option::Option::<T>::unwrap_or": {"n": 2, "variants": _O, "ok": ("payload",), "err": ("arg", 1)},
    "std::option::Option::<T>::unwrap_or_else": {"n": 2, "variants": _O, "ok": ("payload",), "err": ("apply", 1, False, None)},
    "std::option::Option::<T>::ok_or": {"n": 2, "variants": _O, "ok": ("wrap", _RES, "Ok", "payload"), "err": ("wrap", _RES, "Err", ("arg", 1))},
    "std::option::Option::<T>::ok_or_else": {"n": 2, "variants": _O, "ok": ("wrap", _RES, "Ok", "payload"), "err": ("apply", 1, False, (_RES, "Err"))},
    # the lazily filled cache idiom `slot.get_or_insert_with(f)`: the payload when filled, else f()
    "std::option::Option::<T>::get_or_insert_with": {"n": 2, "variants": _O, "ok": ("payload",), "err": ("apply", 1, False, None)},
    "std::option::Option::<T>::or": {"n": 2, "variants": _O, "ok": ("same",), "err": ("arg", 1)},
    "std::option::Option::<T>::or_else": {"n": 2, "variants": _O, "ok": ("same",), "err": ("apply", 1, False, None)},
    "std::result::Result::<T, E>::map": {"n": 2, "variants": _R, "ok": ("apply", 1, True, (_RES, "Ok")), "err": ("same",)},
    "std::result::Result::<T, E>::map_err": {"n": 2, "variants": _R, "ok": ("same",), "err": ("apply", 1, True, (_RES, "Err"))},
    "std::result::Result::<T, E>::and_then": {"n": 2, "variants": _R, "ok": ("apply", 1, True, None), "err": ("same",)},
    "std::result::Result::<T, E>::unwrap_or": {"n": 2, "variants": _R, "ok": ("payload",), "err": ("arg", 1)},
    "std::result::Result::<T, E>::unwrap_or_else": {"n": 2, "variants": _R, "ok": ("payload",), "err": ("apply", 1, True, None)},
    "std::result::Result::<T, E>::ok": {"n": 1, "variants": _R, "ok": ("wrap", _OPT, "Some", "payload"), "err": ("wrap", _OPT, "None", None)},
}

BOX_INTERNALS = {"std::boxed::Box", "std::ptr::Unique", "std::ptr::NonNull"}

DIVERGING_HINT = ("panic", "unwrap_failed", "expect_failed", "begin_panic", "unreachable", "assert_failed",
                  "slice_index_order_fail", "slice_start_index_len_fail", "slice_end_index_len_fail",
                  "handle_alloc_error", "exit", "abort")


_FOLD = {"Eq": lambda a, b: a == b, "Ne": lambda a, b: a != b, "Lt": lambda a, b: a < b, "Le": lambda a, b: a <= b,
         "Gt": lambda a, b: a > b, "Ge": lambda a, b: a >= b}


class TooManyPaths(Exception):
    pass


class Path:
    __slots__ = ("blocks", "events", "refine", "end", "ret", "env", "decisions", "mem")

    def __init__(self, blocks, events, refine, end, ret, env, decisions, mem=None):
        self.mem = mem
        self.blocks = blocks          # list of bb
        self.events = events          # list of event dicts
        self.refine = refine          # place term -> frozenset(variants)
        self.end = end                # "return" | ("diverge", callee)
        self.ret = ret                # provenance term of _0 at return
        self.env = env
        self.decisions = decisions    # list of (cond term, value, bb)

    def calls(self, pred=None):
        for e in self.events:
            if e["k"] == "call" and (pred is None or pred(e)):
                yield e

    def writes(self):
        return [e for e in self.events if e["k"] == "write"]


def strip(t):
    """Remove clone wrappers (value-equal copies)."""
    while isinstance(t, tuple) and t and t[0] == "clone":
        t = t[1]
    return t


def unclone(t):
    """Remove clone wrappers at every depth (value-equal copies)."""
    if not isinstance(t, tuple):
        return t
    if t and t[0] == "clone":
        return unclone(t[1])
    return tuple(unclone(x) for x in t)


def lookup(t):
    """(collection term, key term) when t denotes the element stored under a key: `v[i]`, the Some payload of
    `v.get(i)` (also through unwrap / expect), `map[k]`, the payload of `map.get(k)`; else None."""
    t = strip(t)
    if not isinstance(t, tuple) or not t:
        return None
    if t[0] == "call" and len(t[2]) == 2 and (t[1].endswith("::index") or t[1].endswith("::index_mut")):
        return strip(t[2][0]), strip(t[2][1])
    if t[0] == "index":
        return strip(t[1]), strip(t[2])
    inner = None
    if t[0] == "field" and t[2] == "Some.0":
        inner = strip(t[1])
    elif t[0] == "call" and len(t[2]) >= 1 and (t[1].endswith("Option::<T>::unwrap") or t[1].endswith("Option::<T>::expect")):
        inner = strip(t[2][0])
    if inner is not None and inner[0] == "call" and len(inner[2]) == 2 and \
            (inner[1].endswith("::get") or inner[1].endswith("::get_mut")):
        return strip(inner[2][0]), strip(inner[2][1])
    return None


def show(t, depth=0):
    """Compact rendering of a provenance term."""
    if not isinstance(t, tuple) or not t:
        return str(t)
    k = t[0]
    if depth > 8:
        return "…"
    if k == "param":
        return t[2] if t[2] and t[2] != "#" else "arg%d" % t[1]
    if k == "undef":
        return "undef_%s" % (t[1],)
    if k == "const":
        return t[2]
    if k == "static":
        return "static:" + t[1]
    if k == "field":
        return "%s.%s" % (show(t[1], depth + 1), t[2])
    if k == "index":
        return "%s[%s]" % (show(t[1], depth + 1), show(t[2], depth + 1))
    if k == "call":
        return "%s(%s)%s" % (t[1].split("::")[-1] if not t[1].startswith("<") else t[1],
                             ", ".join(show(a, depth + 1) for a in t[2]), ("@bb%s" % t[3][0]) if len(t) > 3 else "")
    if k == "clone":
        return "clone(%s)" % show(t[1], depth + 1)
    if k == "agg":
        return "%s::%s{%s}" % (t[1].split("::")[-1], t[2], ", ".join("%s: %s" % (n, show(v, depth + 1)) for n, v in t[3]))
    if k in ("tuple", "array", "vec"):
        return "(%s)" % ", ".join(show(x, depth + 1) for x in t[1])
    if k == "closure":
        return "closure:%s" % t[1]
    if k == "binop":
        return "%s(%s, %s)" % (t[1], show(t[2], depth + 1), show(t[3], depth + 1))
    if k == "unop":
        return "%s(%s)" % (t[1], show(t[2], depth + 1))
    if k == "cast":
        return "(%s as %s)" % (show(t[1], depth + 1), t[2])
    if k == "discr":
        return "discr(%s)" % show(t[1], depth + 1)
    if k == "try":
        return "try(%s)" % show(t[1], depth + 1)
    return str(t)


_KINDS = {"param", "undef", "const", "static", "field", "index", "call", "clone", "agg", "tuple", "array", "vec",
          "closure", "binop", "unop", "cast", "discr", "try", "fn"}


def mentions(t, pred):
    """Does any sub-term satisfy pred?"""
    seen = set()
    stack = [t]
    while stack:
        x = stack.pop()
        if not isinstance(x, tuple):
            continue
        if id(x) in seen:
            continue
        seen.add(id(x))
        if x and isinstance(x[0], str) and x[0] in _KINDS:
            if pred(x):
                return True
        for y in x[1:] if (x and isinstance(x[0], str)) else x:
            if isinstance(y, tuple):
                stack.append(y)
    return False


class _PromBody:
    """Minimal Body-like view of a promoted constant's MIR."""

    def __init__(self, parent, mirj):
        self.path = parent.path + "::promoted"
        self.mir = mirj
        self.blocks = mirj["blocks"]
        self.locals = mirj["locals"]


class Walker:
    def __init__(self, body, max_visits=2, max_paths=200000, transparent=None, follow_unwind=False,
                 inline=None, _depth=0, _stack=(), _root=None, _tag=()):
        self.body = body
        # inline: callable(resolved callee path) -> Body or None.  A call to a function it returns is not kept as an
        # opaque ("call", ..) term: the callee's paths are walked with the actual arguments substituted for its
        # parameters, so its events, decisions, writes and refinements appear in the caller's path (events keep the
        # caller's block in "bb" and carry "inl"/"inl_bb").  Depth-bounded, never recursive.
        self.inline = inline
        self._depth = _depth
        self._stack = _stack
        self.root = _root or self
        self._tag = _tag
        self.max_visits = max_visits
        self.max_paths = max_paths
        self.transparent = dict(TRANSPARENT)
        if transparent:
            self.transparent.update(transparent)
        self.npaths = 0
        self.truncated = 0   # paths cut because a block hit max_visits
        self._prom_cache = {}

    # ---- evaluation -------------------------------------------------
    def _promoted(self, idx):
        """Value of a promoted constant (`&Unifiable::Anonymous` etc.)."""
        if idx in self._prom_cache:
            return self._prom_cache[idx]
        val = None
        proms = self.body.mir.get("promoted") or []
        if idx < len(proms):
            pb = _PromBody(self.body, proms[idx])
            try:
                ps = Walker(pb, max_visits=1, max_paths=4).paths()
                if len(ps) == 1 and ps[0].end == "return":
                    val = ps[0].ret
            except TooManyPaths:
                val = None
        self._prom_cache[idx] = val
        return val

    def _mutable_root(self, t):
        """Is the place term rooted in a parameter/local that gives mutable
        access to shared memory (RefCell, RefMut, &mut, raw pointer)?"""
        if t and t[0] == "neq":
            t = t[1]
        x = t
        depth = 0
        while isinstance(x, tuple) and x and x[0] in ("field", "index", "clone") and depth < 64:
            x = x[1]
            depth += 1
        if x is t:
            return False      # a bare value (parameter, call result), not a memory place
        if isinstance(x, tuple) and x and x[0] == "param":
            locs = self.root.body.locals
            if x[1] >= len(locs):
                return False
            ty = locs[x[1]]["s"]
            return ("RefCell<" in ty) or ("RefMut<" in ty) or ty.startswith("&mut") or ty.startswith("*mut")
        return False

    def _local(self, env, l):
        if l in env:
            return env[l]
        b = self.body
        if 1 <= l <= b.mir["arg_count"]:
            return ("param", l, b.locals[l].get("name") or "")
        return ("undef", l)

    def place(self, env, mem, p):
        t = self._local(env, p["l"])
        pending = None
        for e in p["p"]:
            if e == "deref":
                continue
            if isinstance(e, dict):
                if "downcast" in e:
                    pending = e["downcast"]
                    continue
                if "field" in e:
                    name = e["field"]
                    if e.get("of") in BOX_INTERNALS:
                        continue   # Box<T> -> Unique<T> -> NonNull<T>: a Box deref, transparent
                    if pending is not None:
                        name = "%s.%s" % (pending, name)
                        pending = None
                    t = self._field(t, name, mem)
                    continue
                if "index" in e:
                    t = ("index", t, self._local(env, e["index"]))
                    continue
                if "constindex" in e:
                    t = ("index", t, ("const", "usize", str(e["constindex"]), e["constindex"]))
                    continue
            t = ("field", t, "<%s>" % (e if isinstance(e, str) else "proj"))
        if pending is not None:
            # bare downcast without field: keep as is
            pass
        return t

    def _field(self, t, name, mem):
        key = ("field", t, name)
        if key in mem:
            return mem[key]
        if t[0] == "binop" and t[1].endswith("WithOverflow") and name in ("0", "1"):
            # checked arithmetic: (.0) is the plain result, (.1) the overflow flag — the same term under both profiles
            if name == "0":
                return ("binop", t[1][:-len("WithOverflow")], t[2], t[3])
            return ("binop", "Overflows" + t[1][:-len("WithOverflow")], t[2], t[3])
        s = strip(t) if False else t
        if s[0] == "agg":
            short = name.split(".")[-1]
            variant = name.split(".")[0] if "." in name else None
            if variant is None or variant == s[2]:
                for n, v in s[3]:
                    if n == short:
                        return v
        if s[0] == "closure" and name.isdigit() and int(name) < len(s[2]):
            return s[2][int(name)]
        if s[0] == "tuple":
            try:
                return s[1][int(name)]
            except (ValueError, IndexError):
                pass
        if s[0] == "try":
            if name == "Continue.0":
                return self._field(s[1], s[2][0] + ".0", mem)       # payload of the value `?` was applied to (reduced if known)
            if name == "Break.0":
                return ("field", s[1], "<residual>")
        return key

    def operand(self, env, mem, o):
        k = o["k"]
        if k in ("copy", "move"):
            return self.place(env, mem, o["place"])
        if k == "const":
            if "static" in o:
                return ("static", o["static"])
            if "fn" in o:
                return ("fn", o["fn"])
            if "promoted" in o:
                pv = self._promoted(o["promoted"])
                if pv is not None:
                    return pv
            return ("const", o["ty"], o["repr"], o.get("int"))
        return ("const", "?", o.get("repr", "?"), None)

    def rvalue(self, env, mem, rv):
        k = rv["k"]
        if k == "use":
            return self.operand(env, mem, rv["op"])
        if k in ("ref", "rawptr"):
            return self.place(env, mem, rv["place"])
        if k == "cast":
            x = self.operand(env, mem, rv["op"])
            ck = rv["ck"]
            if ck.startswith("PointerCoercion") or ck in ("PtrToPtr", "Transmute") and False:
                return x
            if "Unsize" in ck or "MutToConstPointer" in ck or ck == "PtrToPtr":
                return x
            if ck == "Transmute" and rv["ty"].startswith("*"):
                return x   # Box deref lowering: NonNull<T> as *const T
            return ("cast", x, rv["ty"], ck)
        if k == "binop":
            l, r = self.operand(env, mem, rv["l"]), self.operand(env, mem, rv["r"])
            op = rv["op"]
            if l[0] == "const" and r[0] == "const" and l[3] is not None and r[3] is not None and op in _FOLD:
                v = _FOLD[op](l[3], r[3])
                return ("const", "bool", "true" if v else "false", 1 if v else 0)
            return ("binop", op, l, r)
        if k == "unop":
            x = self.operand(env, mem, rv["x"])
            if rv["op"] == "Not" and x[0] == "const" and x[1] == "bool" and x[3] is not None:
                return ("const", "bool", "false" if x[3] else "true", 0 if x[3] else 1)
            return ("unop", rv["op"], x)
        if k == "discriminant":
            return ("discr", self.place(env, mem, rv["place"]), tuple((v, n) for v, n in rv["variants"]))
        if k == "aggregate":
            ops = tuple(self.operand(env, mem, o) for o in rv["ops"])
            ak = rv["ak"]
            if ak == "adt":
                return ("agg", rv["adt"], rv["variant"], tuple(zip(rv["fields"], ops)))
            if ak == "tuple":
                return ("tuple", ops)
            if ak == "closure":
                return ("closure", rv["closure"], ops)
            if ak == "array":
                return ("array", ops)
            return ("agg", ak, "", tuple((str(i), o) for i, o in enumerate(ops)))
        if k == "repeat":
            return ("call", "<repeat>", (self.operand(env, mem, rv["op"]),), (-1, 0))
        return ("const", "?", rv.get("repr", k), None)

    # ---- inlining -----------------------------------------------------
    def _walk_into(self, H, init_env, refine, mem, bb, cnt):
        """Walk body H (a helper function or a closure body) with its parameters bound to caller terms.  Returns
        [(ret term, events, decisions, refine, mem, end)]; events/decisions are relabelled to the caller's block."""
        sub = Walker(H, max_visits=self.max_visits, max_paths=self.max_paths, inline=self.inline,
                     _depth=self._depth + 1, _stack=self._stack + (self.body.path,), _root=self.root,
                     _tag=self._tag + ((bb, cnt, H.path),))
        sub.transparent = self.transparent
        sps = sub.paths(init_refine=refine, init_env=init_env, init_mem=mem)
        self.truncated += sub.truncated
        outs = []
        for sp in sps:
            evs = []
            for e in sp.events:
                e2 = dict(e)
                e2.setdefault("inl_bb", e["bb"])
                e2.setdefault("inl", H.path)
                e2["bb"] = bb
                evs.append(e2)
            outs.append((sp.ret, evs, [(c, v, bb) for c, v, _b in sp.decisions], sp.refine, sp.mem, sp.end))
        return outs

    def _apply(self, f, fargs, refine, mem, bb, cnt):
        """Apply a closure value / fn item term to argument terms by walking its body; None when it has no body here."""
        f = strip(f)
        get = getattr(self.inline, "closure", None)
        if self._depth >= MAX_INLINE_DEPTH or get is None:
            return None
        if f[0] == "closure":
            H = get(f[1])
            if H is None or H.mir["arg_count"] != len(fargs) + 1:
                return None
            env = {1: f}
            for i, a in enumerate(fargs):
                env[i + 2] = a
            return self._walk_into(H, env, refine, mem, bb, cnt)
        if f[0] == "fn":
            H = get(f[1])
            if H is None or H.mir["arg_count"] != len(fargs) or H.path == self.body.path or H.path in self._stack:
                return None
            return self._walk_into(H, {i + 1: a for i, a in enumerate(fargs)}, refine, mem, bb, cnt)
        return None

    def _combinator(self, decl, args, refine, mem, bb, cnt, line):
        """Option / Result combinators as what they are: a two-way branch on the variant, with the closure (if any)
        applied to the payload.  Returns outcomes like _walk_into, or None (keep the call opaque)."""
        spec = COMBINATORS[decl]
        if len(args) != spec["n"]:
            return None
        x = args[0]
        okv, errv = spec["variants"]
        known = self._variant_of(x, refine)
        outs = []
        for v in (okv, errv):
            if known is not None and v not in known:
                continue
            rf = dict(refine)
            rf[x] = frozenset([v])
            decided = known is None or len(known) > 1
            decs = [(("variant", x), v, bb)] if decided else []
            evs = [{"k": "branch", "cond": ("variant", x), "value": v, "bb": bb, "line": line}] if decided else []
            payload = self._field(x, v + ".0", mem) if v != "None" else None
            how = spec["ok" if v == okv else "err"]
            kind = how[0]
            if kind == "payload":
                outs.append((payload, evs, decs, rf, mem, "return"))
            elif kind == "arg":
                outs.append((args[how[1]], evs, decs, rf, mem, "return"))
            elif kind == "wrap":          # ("wrap", adt, variant, "payload" | ("arg", i) | None)
                inner = payload if how[3] == "payload" else (args[how[3][1]] if how[3] else None)
                outs.append((("agg", how[1], how[2], (("0", inner),) if inner is not None else ()), evs, decs, rf, mem, "return"))
            elif kind == "same":
                outs.append((x, evs, decs, rf, mem, "return"))
            elif kind == "apply":         # ("apply", arg index of f, pass payload?, wrap or None)
                fargs = [payload] if how[2] else []
                sub = self._apply(args[how[1]], fargs, rf, mem, bb, cnt)
                if sub is None:
                    return None
                for ret, sevs, sdecs, rf2, mm2, end in sub:
                    if end == "return" and how[3] is not None:
                        ret = ("agg", how[3][0], how[3][1], (("0", ret),))
                    outs.append((ret, evs + sevs, decs + sdecs, rf2, mm2, end))
            else:
                return None
        return outs

    # ---- walking ----------------------------------------------------
    def paths(self, init_refine=None, entry=0, stop_blocks=(), init_env=None, init_mem=None):
        """Enumerate paths from `entry`.  Yields Path objects."""
        self.npaths = 0
        self.truncated = 0
        out = []
        refine0 = dict(init_refine or {})
        env0 = dict(init_env or {})
        # iterative DFS; state = (bb, env, mem, refine, events, decisions, blocks, visits)
        stack = [(entry, env0, dict(init_mem or {}), refine0, [], [], [], {})]
        body = self.body
        while stack:
            bb, env, mem, refine, events, decisions, blocks, visits = stack.pop()
            cnt = visits.get(bb, 0)
            if cnt >= self.max_visits:
                self.truncated += 1
                continue
            visits = dict(visits)
            visits[bb] = cnt + 1
            blocks = blocks + [bb]
            env = dict(env)
            mem = dict(mem)
            events = list(events)
            blk = body.blocks[bb]
            for s in blk["stmts"]:
                if s["k"] != "assign":
                    continue
                val = self.rvalue(env, mem, s["rv"])
                pl = s["place"]
                if not pl["p"]:
                    env[pl["l"]] = val
                else:
                    target = self.place(env, mem, pl)
                    # a store through a projection
                    mem[target] = val
                    is_deref = any(e == "deref" for e in pl["p"])
                    events.append({"k": "write", "place": target, "value": val, "bb": bb,
                                   "line": s["line"], "deref": is_deref,
                                   "field": target[2] if target[0] == "field" else None,
                                   "base_ty": body.locals[pl["l"]]["s"], "raw": body.locals[pl["l"]].get("k") == "ptr"})
            t = blk["term"]
            k = t["k"]
            if k == "return":
                ret = self._local(env, 0)
                out.append(Path(blocks, events, refine, "return", ret, env, decisions, mem))
                self.npaths += 1
                if self.npaths > self.max_paths:
                    raise TooManyPaths(body.path)
                continue
            if bb in stop_blocks:
                out.append(Path(blocks, events, refine, ("stop", bb), None, env, decisions))
                self.npaths += 1
                continue
            if k == "goto":
                stack.append((t["target"], env, mem, refine, events, decisions, blocks, visits))
                continue
            if k == "drop":
                events.append({"k": "drop", "place": self.place(env, mem, t["place"]), "bb": bb, "line": t["line"]})
                stack.append((t["target"], env, mem, refine, events, decisions, blocks, visits))
                continue
            if k == "assert":
                m = t["msg"]
                ev = {"k": "assert", "kind": m["k"], "bb": bb, "line": t["line"], "exp": t.get("exp")}
                for key in ("len", "index", "l", "r", "x"):
                    if key in m and isinstance(m[key], dict):
                        ev[key] = self.operand(env, mem, m[key])
                if "op" in m:
                    ev["op"] = m["op"]
                events.append(ev)
                stack.append((t["target"], env, mem, refine, events, decisions, blocks, visits))
                continue
            if k == "call":
                decl = callee_decl(t)
                name = callee_name(t)
                args = tuple(self.operand(env, mem, a) for a in t["args"])
                ctor = None
                if name == "<indirect>" and isinstance(t["callee"].get("op"), dict):
                    # a call through a function pointer whose value is known on this path (`let f: fn(..) = g; f(x)`)
                    fv = strip(self.operand(env, mem, t["callee"]["op"]))
                    if fv[0] == "fn":
                        name = decl = fv[1]
                        dty = (t["dest"].get("ty") or "").split("<")[0]
                        if dty and name.rsplit("::", 1)[0] == dty:
                            ctor = ("agg", dty, name.rsplit("::", 1)[1], tuple((str(i), a) for i, a in enumerate(args)))
                site = (bb, cnt) + self._tag
                ev = {"k": "call", "callee": name, "decl": decl, "args": args, "bb": bb, "line": t["line"],
                      "exp": t.get("exp"), "site": site, "self_ty": t["callee"].get("self_ty"),
                      "path_args": t["callee"].get("path_args"), "target": t["target"],
                      "unsafe": t["callee"].get("unsafe", False), "closure_args": t["callee"].get("closure_args", [])}
                events.append(ev)
                H = None
                if self.inline is not None and self._depth < MAX_INLINE_DEPTH and name != body.path and name not in self._stack:
                    H = self.inline(name)
                    if H is not None and H.mir["arg_count"] != len(args):
                        H = None
                outcomes = None
                if H is not None:
                    ev["inlined"] = True
                    outcomes = self._walk_into(H, {i + 1: a for i, a in enumerate(args)}, refine, mem, bb, cnt)
                elif self.inline is not None and decl in FN_CALL_DECLS and len(args) == 2 and strip(args[0])[0] in ("closure", "fn") \
                        and strip(args[1])[0] == "tuple":
                    # `f(x)` where f is a closure value known on this path (a parameter bound by inlining, a local)
                    outcomes = self._apply(args[0], list(strip(args[1])[1]), refine, mem, bb, cnt)
                    if outcomes is not None:
                        ev["modelled"] = True
                elif self.inline is not None and decl in COMBINATORS:
                    outcomes = self._combinator(decl, args, refine, mem, bb, cnt, t["line"])
                    if outcomes is not None:
                        ev["modelled"] = True
                if outcomes is not None:
                    for ret, sevs, sdecs, rf2, mm2, end in outcomes:
                        evs2 = events + sevs
                        decs2 = decisions + sdecs
                        if end != "return" or t["target"] is None:
                            out.append(Path(blocks, evs2, rf2, end if end != "return" else ("diverge", name), None, env, decs2, mm2))
                            self.npaths += 1
                            continue
                        env2, mem2 = dict(env), dict(mm2)
                        d = t["dest"]
                        evs2.append({"k": "inline-return", "callee": name, "result": ret, "bb": bb, "line": t["line"]})
                        if not d["p"]:
                            env2[d["l"]] = ret
                        else:
                            target = self.place(env2, mem2, d)
                            mem2[target] = ret
                            evs2.append({"k": "write", "place": target, "value": ret, "bb": bb, "line": t["line"],
                                         "deref": any(e == "deref" for e in d["p"]),
                                         "field": target[2] if target[0] == "field" else None,
                                         "base_ty": body.locals[d["l"]]["s"], "raw": body.locals[d["l"]].get("k") == "ptr"})
                        stack.append((t["target"], env2, mem2, rf2, evs2, decs2, blocks, visits))
                    if self.npaths > self.max_paths:
                        raise TooManyPaths(body.path)
                    continue
                if ctor is not None:
                    res = ctor          # an enum / struct constructor used as a function value
                elif decl in self.transparent and len(args) > self.transparent[decl]:
                    res = args[self.transparent[decl]]
                elif decl in CLONE and args:
                    res = ("clone", args[0])
                elif decl == "std::ops::Try::branch" and args:
                    st = t["callee"].get("self_ty") or ""
                    okv = ("Some", "None") if "Option<" in st else ("Ok", "Err")
                    res = ("try", args[0], okv)
                elif decl == "std::ops::FromResidual::from_residual" and "Option<" in (t["callee"].get("self_ty") or name):
                    res = ("agg", "std::option::Option", "None", ())   # `x?` on a None: the function returns None
                elif (name.endswith("box_assume_init_into_vec_unsafe") or name.endswith("::into_vec")) and args:
                    # `vec![a, b, ..]`: the array literal written into the fresh box is the vector's content
                    res = ("call", name, args, site)
                    a0 = strip(args[0])
                    for k2, v2 in mem.items():
                        if isinstance(v2, tuple) and v2 and v2[0] == "array" and mentions(k2, lambda t: t == a0):
                            res = ("vec", v2[1])
                else:
                    res = ("call", name, args, site)
                ev["result"] = res
                if decl not in self.transparent and decl not in CLONE and not name.startswith("std::") \
                        and not name.startswith("<std::") and not name.startswith("core::"):
                    # a call into the crate may write, through RefCell / &mut, the memory behind
                    # interior-mutable roots: forget what was known about such places
                    refine = {k2: v2 for k2, v2 in refine.items() if not self._mutable_root(k2)}
                    mem = {k2: v2 for k2, v2 in mem.items() if not self._mutable_root(k2)}
                if t["target"] is None:
                    out.append(Path(blocks, events, refine, ("diverge", name), None, env, decisions))
                    self.npaths += 1
                    continue
                d = t["dest"]
                if not d["p"]:
                    env[d["l"]] = res
                else:
                    target = self.place(env, mem, d)
                    mem[target] = res
                    events.append({"k": "write", "place": target, "value": res, "bb": bb, "line": t["line"],
                                   "deref": any(e == "deref" for e in d["p"]),
                                   "field": target[2] if target[0] == "field" else None,
                                   "base_ty": body.locals[d["l"]]["s"], "raw": body.locals[d["l"]].get("k") == "ptr"})
                stack.append((t["target"], env, mem, refine, events, decisions, blocks, visits))
                continue
            if k == "switch":
                d = self.operand(env, mem, t["discr"])
                self._switch(t, d, bb, env, mem, refine, events, decisions, blocks, visits, stack)
                continue
            if k == "unreachable":
                continue  # infeasible
            # resume/terminate/other: path ends abnormally
            out.append(Path(blocks, events, refine, ("abnormal", k), None, env, decisions))
            self.npaths += 1
        return out

    def _variant_of(self, t, refine):
        """Known variant set for place term t (None = unknown)."""
        if t in refine:
            return refine[t]
        if t[0] == "agg" and t[2]:
            return frozenset([t[2]])
        if t[0] == "clone":
            return self._variant_of(t[1], refine)
        return None

    def _switch(self, t, d, bb, env, mem, refine, events, decisions, blocks, visits, stack):
        targets = t["targets"]
        otherwise = t["otherwise"]
        def push(tgt, rf, dec):
            evs = events
            if len(dec) > len(decisions):
                c, v, b = dec[-1]
                evs = events + [{"k": "branch", "cond": c, "value": v, "bb": b, "line": t["line"]}]
            stack.append((tgt, env, mem, rf, evs, dec, blocks, visits))
        if d[0] == "const" and d[3] is not None:
            for v, tgt in targets:
                if v == d[3]:
                    push(tgt, refine, decisions)
                    return
            push(otherwise, refine, decisions)
            return
        if d[0] == "discr":
            placet = d[1]
            vmap = dict(d[2])
            allv = frozenset(vmap.values())
            if placet[0] == "try":
                # Continue <=> inner is Some/Ok
                inner = placet[1]
                okv, errv = placet[2]
                known = self._variant_of(inner, refine)
                for v, tgt in targets + [[None, otherwise]]:
                    if v is None:
                        names = allv - frozenset(vmap.get(x) for x, _ in targets)
                    else:
                        names = frozenset([vmap.get(v)])
                    for nm in names:
                        iv = okv if nm == "Continue" else errv
                        if known is not None and iv not in known:
                            continue
                        rf = dict(refine)
                        rf[inner] = frozenset([iv])
                        push(tgt, rf, decisions + [(("variant", inner), iv, bb)])
                return
            known = self._variant_of(placet, refine)
            cur = known if known is not None else allv
            cur = frozenset(cur) - refine.get(("neq", placet), frozenset())
            listed = set()
            for v, tgt in targets:
                nm = vmap.get(v)
                listed.add(nm)
                if nm in cur:
                    rf = dict(refine)
                    rf[placet] = frozenset([nm])
                    push(tgt, rf, decisions + [(("variant", placet), nm, bb)])
            rest = frozenset(cur) - listed
            if rest:
                rf = dict(refine)
                rf[placet] = frozenset(rest)
                rv_ = tuple(sorted(rest))
                push(otherwise, rf, decisions + [(("variant", placet), rv_[0] if len(rv_) == 1 else rv_, bb)])
            return
        # boolean / integer condition
        def stable_since(bb0):
            # the earlier evaluation is still valid if nothing that may write memory happened since
            seen = False
            for e in events:
                if not seen:
                    if e["k"] == "branch" and e["bb"] == bb0 and e["cond"] == d:
                        seen = True
                    continue
                if e["k"] == "write" or (e["k"] == "call" and e["decl"] not in self.transparent and e["decl"] not in CLONE):
                    return False
            return seen
        for (c, val, b0) in decisions:
            if c == d and stable_since(b0):
                # same evaluation already decided on this path
                for v, tgt in targets:
                    if v == val:
                        push(tgt, refine, decisions)
                        return
                if val == "otherwise" or val is True:
                    push(otherwise, refine, decisions)
                    return
        is_bool = (len(targets) == 1 and targets[0][0] == 0)
        eqref = self._eq_refinement(d)
        for v, tgt in targets:
            val = False if is_bool else v
            rf = refine
            if eqref is not None and is_bool:
                rf = self._apply_eq(refine, eqref, False)
                if rf is None:
                    continue
            push(tgt, rf, decisions + [(d, val, bb)])
        val = True if is_bool else "otherwise"
        rf = refine
        if eqref is not None and is_bool:
            rf = self._apply_eq(refine, eqref, True)
            if rf is None:
                return
        push(otherwise, rf, decisions + [(d, val, bb)])

    def _eq_refinement(self, d):
        """cond term `x == UnitVariant` (or !=) -> (place term, adt, variant, negated)"""
        neg = False
        while d[0] == "unop" and d[1] == "Not":
            d = d[2]
            neg = not neg
        if d[0] != "call":
            return None
        nm = d[1]
        if nm.endswith("Option::<T>::is_some") or nm.endswith("Option::<T>::is_none"):
            if nm.endswith("is_none"):
                neg = not neg
            # is_some(x): x is Some  (negated: x is not Some, i.e. None)
            return (d[2][0], "std::option::Option", "Some", neg, ("Some", "None"))
        if not (nm.endswith("::eq") or nm.endswith("::ne")):
            return None
        if nm.endswith("::ne"):
            neg = not neg
        a, b = (d[2] + (None, None))[:2]
        for x, y in ((a, b), (b, a)):
            if isinstance(y, tuple) and y[0] == "agg" and y[2] and not y[3] and isinstance(x, tuple) and x[0] != "agg":
                return (x, y[1], y[2], neg, None)
        return None

    def _apply_eq(self, refine, eqref, truth):
        x, adt, variant, neg, universe = eqref
        holds = truth != neg  # x == variant holds?
        known = refine.get(x)
        if known is None and x[0] == "agg" and x[2]:
            known = frozenset([x[2]])
        if known is None and universe is not None:
            known = frozenset(universe) - refine.get(("neq", x), frozenset())
        rf = dict(refine)
        if holds:
            if known is not None and variant not in known:
                return None
            rf[x] = frozenset([variant])
        else:
            if known is not None:
                rest = known - {variant}
                if not rest:
                    return None
                rf[x] = frozenset(rest)
            else:
                rf[x] = ("not", variant)
                # represent "anything but variant" lazily: resolved when a
                # discriminant switch on x supplies the full variant list
                del rf[x]
                rf[("neq", x)] = frozenset([variant]) | refine.get(("neq", x), frozenset())
        return rf
