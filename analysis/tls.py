"""Thread-local cells (`thread_local! { static K: Cell<..> }`) touched by crate code.

A `LocalKey` is reached through `K.with(|c| ..)` (or `K.set(..)`, `K.get()`, ..); the key itself is a promoted constant
in MIR, and the storage behind it is only named inside std, so the ordinary static inventory (statics.py) does not see
these accesses.  This module lists them per function and decides, by a forward dataflow over the function's CFG,
whether a function leaves a counter cell *balanced*: on every path to a return the increments and decrements it makes
(directly, through the `Drop` of a guard value it holds, or through callees) add up to zero.  A balanced counter carries
nothing from one call to the next, so it is not per-query state.
"""
from cfg import BodyCfg

WITH = ("::with", "::try_with")
READ_METHODS = ("get", "borrow", "with_borrow")
WRITE_METHODS = ("set", "replace", "take", "update", "swap", "borrow_mut", "with_borrow_mut")


def _callee(t):
    c = t["callee"]
    return c.get("resolved") or c.get("path") or ""


def _single_defs(b):
    d = {}
    for i, blk in enumerate(b.blocks):
        for s in blk["stmts"]:
            if s["k"] == "assign" and not s["place"]["p"]:
                d.setdefault(s["place"]["l"], []).append(("stmt", i, s["rv"]))
        t = blk["term"]
        if t["k"] == "call" and t.get("dest") and not t["dest"]["p"]:
            d.setdefault(t["dest"]["l"], []).append(("call", i, t))
    return d


def _key_of(b, defs, op, depth=0):
    """Name of the LocalKey constant an operand refers to, or None."""
    if depth > 6:
        return None
    if op["k"] == "const":
        if "LocalKey<" in op.get("ty", ""):
            if op.get("promoted") is not None:
                proms = b.mir.get("promoted") or []
                if op["promoted"] < len(proms):
                    for blk in proms[op["promoted"]]["blocks"]:
                        for s in blk["stmts"]:
                            if s["k"] == "assign" and s["rv"].get("k") == "use" and s["rv"]["op"]["k"] == "const" and \
                                    "LocalKey<" in s["rv"]["op"].get("ty", "") and s["rv"]["op"].get("promoted") is None:
                                return s["rv"]["op"].get("repr")
                return None
            return op.get("repr")
        return None
    if op["k"] in ("copy", "move"):
        ds = defs.get(op["place"]["l"], [])
        if len(ds) != 1 or ds[0][0] != "stmt":
            return None
        rv = ds[0][2]
        if rv["k"] == "use":
            return _key_of(b, defs, rv["op"], depth + 1)
        if rv["k"] in ("ref", "rawptr"):
            return _key_of(b, defs, {"k": "copy", "place": {"l": rv["place"]["l"], "p": []}}, depth + 1)
        if rv["k"] == "cast":
            return _key_of(b, defs, rv["op"], depth + 1)
    return None


def _root(defs, l, depth=0):
    """Follow single-definition copies / the `.0` of a checked add back to the defining thing."""
    while depth < 8:
        ds = defs.get(l, [])
        if len(ds) != 1:
            return ("local", l)
        kind, bb, x = ds[0]
        if kind == "call":
            return ("call", bb, x)
        rv = x
        if rv["k"] == "use" and rv["op"]["k"] in ("copy", "move"):
            pl = rv["op"]["place"]
            if not pl["p"]:
                l = pl["l"]
                depth += 1
                continue
            if len(pl["p"]) == 1 and isinstance(pl["p"][0], dict) and pl["p"][0].get("field") == "0":
                ds2 = defs.get(pl["l"], [])
                if len(ds2) == 1 and ds2[0][0] == "stmt" and ds2[0][2]["k"] == "binop" and "WithOverflow" in ds2[0][2]["op"]:
                    return ("binop", ds2[0][2])
            return ("proj", pl)
        if rv["k"] == "use" and rv["op"]["k"] == "const":
            return ("const", rv["op"].get("int"))
        if rv["k"] == "binop":
            return ("binop", rv)
        return ("other", rv)
    return ("local", l)


def _upvar(defs, pl, depth=0):
    """Index of the captured variable a place inside a closure body denotes, or None."""
    if depth > 5:
        return None
    fs = [x for x in pl["p"] if isinstance(x, dict) and "field" in x]
    if pl["l"] == 1 and fs:
        return fs[0].get("idx", 0)
    ds = defs.get(pl["l"], [])
    if len(ds) == 1 and ds[0][0] == "stmt":
        rv = ds[0][2]
        if rv["k"] == "use" and rv["op"]["k"] in ("copy", "move"):
            return _upvar(defs, rv["op"]["place"], depth + 1)
        if rv["k"] in ("ref",):
            return _upvar(defs, rv["place"], depth + 1)
    return None


def _closure_effect(prog, cpath):
    """What a `|c| ..` handed to LocalKey::with does to the cell: list of effects
       ("read",) | ("delta", n) | ("cap_delta", upvar index, n) | ("const", value) | ("unknown",)."""
    K = next((x for x in prog.lib_bodies() if x.path == cpath), None)
    if K is None:
        return [("unknown",)]
    defs = _single_defs(K)
    out = []
    cell_locals = {2}
    # locals that are copies / reborrows of the cell parameter
    changed = True
    while changed:
        changed = False
        for l, ds in defs.items():
            if l in cell_locals or len(ds) != 1 or ds[0][0] != "stmt":
                continue
            rv = ds[0][2]
            src = None
            if rv["k"] == "use" and rv["op"]["k"] in ("copy", "move") and not rv["op"]["place"]["p"]:
                src = rv["op"]["place"]["l"]
            elif rv["k"] in ("ref",) and rv["place"]["p"] in ([], ["deref"]):
                src = rv["place"]["l"]
            if src in cell_locals:
                cell_locals.add(l)
                changed = True
    get_dests = set()
    for i, blk in enumerate(K.blocks):
        if blk["cleanup"]:
            continue
        t = blk["term"]
        if t["k"] != "call":
            continue
        nm = _callee(t)
        last = nm.split("::")[-1]
        on_cell = bool(t["args"]) and t["args"][0]["k"] in ("copy", "move") and t["args"][0]["place"]["l"] in cell_locals
        if not on_cell:
            if any(a["k"] in ("copy", "move") and a["place"]["l"] in cell_locals for a in t["args"]):
                out.append(("unknown",))
            continue
        if "Cell" not in nm and "cell" not in nm:
            out.append(("unknown",))
            continue
        if last in READ_METHODS:
            out.append(("read",))
            if t.get("dest") and not t["dest"]["p"]:
                get_dests.add(t["dest"]["l"])
        elif last == "set" and len(t["args"]) == 2:
            v = t["args"][1]
            eff = ("unknown",)
            if v["k"] == "const" and v.get("int") is not None:
                eff = ("const", v["int"])
            elif v["k"] in ("copy", "move") and not v["place"]["p"]:
                r = _root(defs, v["place"]["l"])
                if r[0] == "call" and _callee(r[2]).split("::")[-1] in ("wrapping_add", "wrapping_sub", "saturating_add", "saturating_sub") \
                        and len(r[2]["args"]) == 2 and r[2]["args"][1]["k"] == "const" and r[2]["args"][1].get("int") is not None \
                        and r[2]["args"][0]["k"] in ("copy", "move") and not r[2]["args"][0]["place"]["p"]:
                    # `d.get().wrapping_add(1)`: the same ±c as far as balance is concerned
                    op_ = _callee(r[2]).split("::")[-1]
                    r = ("binop", {"op": "Add" if op_.endswith("add") else "Sub", "l": r[2]["args"][0], "r": r[2]["args"][1]})
                if r[0] == "const":
                    eff = ("const", r[1])
                elif r[0] == "binop" and r[1]["op"].startswith(("Add", "Sub")) and r[1]["r"]["k"] == "const" and r[1]["r"].get("int") is not None \
                        and r[1]["l"]["k"] in ("copy", "move"):
                    n = r[1]["r"]["int"] if r[1]["op"].startswith("Add") else -r[1]["r"]["int"]
                    lp = r[1]["l"]["place"]
                    base = _root(defs, lp["l"]) if not lp["p"] else ("proj", lp)
                    if base[0] == "call" and _callee(base[2]).split("::")[-1] == "get" and base[2]["args"] and \
                            base[2]["args"][0]["k"] in ("copy", "move") and base[2]["args"][0]["place"]["l"] in cell_locals:
                        eff = ("delta", n)
                    elif base[0] == "proj":
                        # a captured variable: (*_1).k, _1.k, or *(copy of (*_1).k) when captured by reference
                        up = _upvar(defs, base[1])
                        if up is not None:
                            eff = ("cap_delta", up, n)
            out.append(eff)
        elif last in WRITE_METHODS:
            out.append(("unknown",))
        else:
            out.append(("unknown",))
    return out or [("read",)] if not out else out


def ops(prog, b):
    """Thread-local operations of one function: [{"key", "bb", "line", "effects", "dest", "closure_ops"}]."""
    defs = _single_defs(b)
    out = []
    for i, blk in enumerate(b.blocks):
        if blk["cleanup"]:
            continue
        t = blk["term"]
        if t["k"] != "call":
            continue
        nm = t["callee"].get("path") or ""
        if "thread::LocalKey" not in nm or not t["args"]:
            continue
        key = _key_of(b, defs, t["args"][0])
        if key is None:
            out.append({"key": None, "bb": i, "line": t["line"], "effects": [("unknown",)], "dest": None, "t": t, "flows_out": True})
            continue
        last = nm.split("::")[-1]
        effects = [("unknown",)]
        if any(nm.endswith(w) for w in WITH):
            cas = t["callee"].get("closure_args") or []
            effects = _closure_effect(prog, cas[0]["closure"]) if cas else [("unknown",)]
        elif last == "get":
            effects = [("read",)]
        elif last == "set" and len(t["args"]) == 2 and t["args"][1]["k"] == "const" and t["args"][1].get("int") is not None:
            effects = [("const", t["args"][1]["int"])]
        dest_l = t["dest"]["l"] if t.get("dest") and not t["dest"]["p"] else None
        dest_ty = b.locals[dest_l]["s"].replace(" ", "") if dest_l is not None else "?"
        # does anything the closure saw leave it?  the call's value, or a captured `&mut`
        unit_like = dest_ty in ("()", "std::result::Result<(),std::thread::AccessError>")
        mut_capture = False
        for a in t["args"][1:]:
            if a["k"] in ("copy", "move") and not a["place"]["p"]:
                cds = defs.get(a["place"]["l"], [])
                if len(cds) == 1 and cds[0][0] == "stmt" and cds[0][2].get("k") == "aggregate":
                    for o in cds[0][2].get("ops", []):
                        ty_ = (o.get("place") or {}).get("ty", "") or o.get("ty", "")
                        if ty_.startswith("&mut"):
                            mut_capture = True
        out.append({"key": key, "bb": i, "line": t["line"], "effects": effects, "dest": dest_l, "t": t,
                    "flows_out": not unit_like or mut_capture})
    return out


def inventory(prog):
    """key -> {"readers": {fn path}, "writers": {fn path}, "unknown": bool}"""
    inv = {}
    per_fn = {}
    for b in prog.lib_bodies():
        os_ = ops(prog, b)
        if not os_:
            continue
        owner = b.path if b.kind != "Closure" else (b.parent or b.path)
        per_fn[b.path] = os_
        for o in os_:
            e = inv.setdefault(o["key"], {"readers": set(), "writers": set(), "unknown": False})
            for eff in o["effects"]:
                if eff[0] == "read":
                    e["readers"].add(owner)
                elif eff[0] == "unknown":
                    e["unknown"] = True
                    e["readers"].add(owner)
                    e["writers"].add(owner)
                else:
                    e["writers"].add(owner)
                    if eff[0] in ("delta",):
                        e["readers"].add(owner)
    return inv, per_fn


def _drop_impls(prog):
    """type name -> Drop::drop body, for crate types."""
    out = {}
    for b in prog.lib_bodies():
        if b.path.endswith("::drop") and " as std::ops::Drop>" in b.path:
            ty = b.path[1:].split(" as std::ops::Drop>")[0]
            out[ty] = b
    return out


def net_effect(prog, b, key, per_fn, _stack=()):
    """Set of net changes (ints, or None for 'cannot tell') the function makes to the counter cell `key` over all paths
    from entry to a return."""
    if b.path in _stack:
        return {0}       # a recursive call: assumed balanced; the assumption is discharged when the outer result is {0}
    idx = {x.path: x for x in prog.lib_bodies()}
    drops = _drop_impls(prog)
    defs = _single_defs(b)
    my_ops = {o["bb"]: o for o in per_fn.get(b.path, []) if o["key"] == key}
    other_write = any(o["key"] is None for o in per_fn.get(b.path, []))
    if other_write:
        return {None}
    cfg = BodyCfg(b)

    def guard_type(ty):
        ty = ty.replace(" ", "")
        for g in drops:
            if ty == g or ty == "std::option::Option<%s>" % g:
                return g
        return None
    tracked = {l: guard_type(loc["s"]) for l, loc in enumerate(b.locals) if guard_type(loc["s"])}
    drop_delta = {}
    for g in set(tracked.values()):
        d = net_effect(prog, drops[g], key, per_fn, _stack + (b.path,))
        drop_delta[g] = d
    # forward dataflow: state = frozenset of (delta or None, frozenset of locals currently holding a live guard)
    n = len(b.blocks)
    IN = [set() for _ in range(n)]
    IN[0] = {(0, frozenset())}
    work = [0]
    results = set()
    visits = [0] * n
    while work:
        i = work.pop()
        visits[i] += 1
        if visits[i] > 40:
            return {None}
        blk = b.blocks[i]
        if blk["cleanup"]:
            continue
        states = set(IN[i])
        out_states = set()
        for delta, live in states:
            live = set(live)
            for s in blk["stmts"]:
                if s["k"] != "assign" or s["place"]["p"]:
                    continue
                l = s["place"]["l"]
                rv = s["rv"]
                if l in tracked:
                    if rv["k"] == "aggregate":
                        v = rv.get("variant")
                        if v == "None":
                            live.discard(l)
                        else:
                            live.add(l)
                    elif rv["k"] == "use" and rv["op"]["k"] == "const":
                        live.add(l)          # a unit-struct guard written as a constant
                    elif rv["k"] == "use" and rv["op"]["k"] in ("move", "copy") and not rv["op"]["place"]["p"] and rv["op"]["place"]["l"] in tracked:
                        src = rv["op"]["place"]["l"]
                        if src in live:
                            live.add(l)
                            if rv["op"]["k"] == "move":
                                live.discard(src)
                        else:
                            live.discard(l)
            t = blk["term"]
            d2 = delta
            if i in my_ops and d2 is not None:
                for eff in my_ops[i]["effects"]:
                    if eff[0] == "read":
                        continue
                    if eff[0] == "delta":
                        d2 += eff[1]
                    elif eff[0] == "cap_delta":
                        # the captured value must be the result of a read of the same cell made in this function
                        clo = next((a for a in my_ops[i]["t"]["args"][1:] if a["k"] in ("copy", "move")), None)
                        ok = False
                        if clo is not None:
                            cds = defs.get(clo["place"]["l"], [])
                            if len(cds) == 1 and cds[0][0] == "stmt" and cds[0][2]["k"] == "aggregate":
                                opsl = cds[0][2].get("ops", [])
                                if eff[1] < len(opsl) and opsl[eff[1]]["k"] in ("copy", "move", "ref"):
                                    src = opsl[eff[1]]
                                    sl = src["place"]["l"] if "place" in src else None
                                    r = _root(defs, sl) if sl is not None else None
                                    if r is None and sl is not None:
                                        r = ("local", sl)
                                    # `&depth` captured by reference: the local's own definition
                                    if r is not None and r[0] == "other" and r[1].get("k") == "ref":
                                        r = _root(defs, r[1]["place"]["l"])
                                    if r is not None and r[0] == "call" and r[1] in my_ops and any(e2[0] == "read" for e2 in my_ops[r[1]]["effects"]) \
                                            and all(e2[0] == "read" for e2 in my_ops[r[1]]["effects"]):
                                        ok = True
                        d2 = d2 + eff[2] if ok else None
                    else:
                        d2 = None
                    if d2 is None:
                        break
            if t["k"] == "call" and d2 is not None and i not in my_ops:
                nm = _callee(t)
                cb = idx.get(nm)
                if cb is not None and (cb.path in per_fn or any(x in per_fn for x in ())):
                    ne = net_effect(prog, cb, key, per_fn, _stack + (b.path,))
                    if len(ne) == 1 and None not in ne:
                        d2 += next(iter(ne))
                    else:
                        d2 = None
                # a guard handed to a callee is no longer ours to drop
                for a in t["args"]:
                    if a["k"] == "move" and not a["place"]["p"] and a["place"]["l"] in live:
                        live.discard(a["place"]["l"])
                # a guard handed back by a callee is ours now (its constructor's own change was counted with its Drop)
                if t.get("dest") and not t["dest"]["p"] and t["dest"]["l"] in tracked and cb is not None:
                    live.add(t["dest"]["l"])
                    if d2 is not None:
                        dd = drop_delta.get(tracked[t["dest"]["l"]], {None})
                        # undo the Drop that the constructor's summary already charged: it will be charged where we drop it
                        d2 = d2 - next(iter(dd)) if len(dd) == 1 and None not in dd else None
            if t["k"] == "drop" and not t["place"]["p"] and t["place"]["l"] in tracked and t["place"]["l"] in live and d2 is not None:
                g = tracked[t["place"]["l"]]
                dd = drop_delta.get(g, {None})
                if len(dd) == 1 and None not in dd:
                    d2 += next(iter(dd))
                else:
                    d2 = None
                live.discard(t["place"]["l"])
            if t["k"] == "return":
                # a guard moved into the return place leaves with the caller, who will drop it: count its Drop here, so that
                # a constructor `Guard::new()` (+1, returns the guard) is seen as balanced with the guard's Drop (-1)
                if 0 in live and 0 in tracked and d2 is not None:
                    dd = drop_delta.get(tracked[0], {None})
                    d2 = d2 + next(iter(dd)) if len(dd) == 1 and None not in dd else None
                results.add(d2)
                continue
            out_states.add((d2, frozenset(live)))
        for s2 in cfg.succ[i]:
            if b.blocks[s2]["cleanup"]:
                continue
            new = out_states - IN[s2]
            if new:
                if len(IN[s2]) + len(new) > 64:
                    return {None}
                IN[s2] |= new
                work.append(s2)
    return results or {None}
