"""The U-table: dispatch table of `Unifiable::unify(self, other, ss)` over the
variants of both operands, derived from MIR paths with variant refinement.

cell(V1, V2) = set of outcome classes over all CFG paths consistent with
self: V1, other: V2 (the `self == other` shortcut path is recorded apart).

Outcome classes
  FAIL            returns None
  KEEP            returns Some(clone of the `ss` parameter)
  COND(c)         KEEP/FAIL decided by condition c over the two payloads
  SWAP            returns other.unify(self, ss)
  DEREF           returns <binding of self in ss>.unify(other, ss)
  BIND            returns Some(new set) built in this function (fresh vector)
  EVAL            returns unify_sfunction(name, terms, other, ss)
  REC             element-wise recursion (calls unify on payload elements)
  PANIC(f)        diverges
"""
from sym import Walker, strip, show, mentions

VARIANTS = ["Nil", "Anonymous", "Atom", "SFloat", "SInteger", "LogicVar", "SComplex", "SLinkedList", "SFunction"]


def find_unify(prog):
    """Locate the unification method by role: a method of the term enum taking
    (self, other: &Term, ss) and returning Option<Rc<SubstitutionSet>>."""
    cands = [b for b in prog.lib_bodies()
             if b.kind == "AssocFn" and b.name == "unify" and "Unifiable" in b.path and b.mir["arg_count"] == 3]
    return cands[0] if len(cands) == 1 else None


def walker(prog, body, max_visits=2, **kw):
    """Path walker over the unification method; private helpers it calls (a binder, a chain walk, ..) are walked into,
    so the rules see the same paths whether or not parts of `unify` live in helper functions."""
    import inline
    return Walker(body, max_visits=max_visits, inline=inline.helpers(prog, keep=("Unifiable::unify", "unify_sfunction")), **kw)


def is_param(t, idx):
    t = strip(t)
    return isinstance(t, tuple) and t[0] == "param" and t[1] == idx


def rooted_in_param(t, idx):
    return mentions(t, lambda x: x[0] == "param" and x[1] == idx)


class Cell:
    def __init__(self):
        self.paths = []       # (outcome, conds, path)
        self.outcomes = set()
        self.truncated = 0

    def classes(self):
        return set(o for o, _, _ in self.paths)


def classify(path, unify_name):
    """Outcome class of one path."""
    if path.end != "return":
        if isinstance(path.end, tuple) and path.end[0] == "diverge":
            return "PANIC"
        return "ABNORMAL"
    r = path.ret
    if r[0] == "agg" and r[1].endswith("Option") and r[2] == "None":
        return "FAIL"
    if r[0] == "agg" and r[1].endswith("Option") and r[2] == "Some":
        payload = dict(r[3]).get("0")
        if is_param(payload, 3):
            return "KEEP"
        p = strip(payload)
        if p[0] == "call" and ("from_elem" in p[1] or "Vec" in p[1] or "to_vec" in p[1] or "with_capacity" in p[1]):
            return "BIND"
        if p[0] == "call" and p[1] == unify_name:
            return "REC"
        if p[0] == "field" and isinstance(p[1], tuple) and p[1][0] == "call" and p[1][1] == unify_name:
            return "REC"   # Some(ss) payload of an element unification
        return "SOME(%s)" % show(payload)
    if r[0] == "call" and r[1] == unify_name:
        a, b, s = (r[2] + (None, None, None))[:3]
        if is_param(a, 2) and is_param(b, 1) and is_param(s, 3):
            return "SWAP"
        if is_param(b, 2) and is_param(s, 3) and rooted_in_param(a, 3) and not rooted_in_param(a, 2):
            return "DEREF"
        return "REC"
    if r[0] == "call" and r[1].endswith("unify_sfunction"):
        return "EVAL"
    if r[0] == "call":
        return "CALL(%s)" % r[1].split("::")[-1]
    return "OTHER(%s)" % show(r)


def conds(path):
    """Decisions of the path other than variant tests, rendered."""
    out = []
    for c, v, bb in path.decisions:
        if c[0] == "variant":
            continue
        out.append((c, v))
    return out


def is_eq_self_other(c):
    c0 = c
    return c0[0] == "call" and c0[1].endswith("::eq") and len(c0[2]) == 2 and \
        is_param(c0[2][0], 1) and is_param(c0[2][1], 2)


def is_anon_test(c):
    if c[0] != "call" or not c[1].endswith("::eq"):
        return False
    for x, y in ((c[2][0], c[2][1]), (c[2][1], c[2][0])):
        if x[0] == "agg" and x[2] == "Anonymous" and is_param(y, 2):
            return True
    return False


def build(prog, ctx=None, variants=None, max_visits=2):
    """Returns (unify_body, {(v1, v2): Cell})."""
    body = find_unify(prog)
    if body is None:
        return None, {}
    unify_name = body.path
    # the name under which calls to unify appear (resolved path)
    if ctx is not None and getattr(ctx, "tier", "quick") == "thorough":
        max_visits += 1
    w = walker(prog, body, max_visits=max_visits)
    selfp = ("param", 1, body.locals[1].get("name") or "")
    otherp = ("param", 2, body.locals[2].get("name") or "")
    table = {}
    vs = variants or VARIANTS
    for v1 in vs:
        for v2 in vs:
            cell = Cell()
            ps = w.paths({selfp: frozenset([v1]), otherp: frozenset([v2])})
            cell.truncated = w.truncated
            if ctx is not None:
                ctx.stats["paths_walked"] += len(ps)
            for p in ps:
                cs = conds(p)
                # the `self == other` shortcut: identical terms
                if any(is_eq_self_other(c) and v is True for c, v in cs):
                    if v1 == v2:
                        cell.paths.append(("EQKEEP" if classify(p, _uname(p, unify_name)) == "KEEP" else "EQ-OTHER", cs, p))
                    continue   # different variants are never equal
                oc = classify(p, _uname(p, unify_name))
                rel = [(c, v) for c, v in cs if not is_eq_self_other(c) and not is_anon_test(c)]
                cell.paths.append((oc, rel, p))
            table[(v1, v2)] = cell
    if ctx is not None:
        ctx.fn(body)
    return body, table


def _uname(path, default):
    for e in path.events:
        if e["k"] == "call" and e["callee"].endswith("Unifiable::unify"):
            return e["callee"]
    return default


def summarize(cell):
    """Set of outcome classes of a cell, ignoring the identical-terms shortcut
    and the documented `id == 0` panic guard."""
    out = set()
    for oc, rel, p in cell.paths:
        if oc in ("EQKEEP",):
            continue
        if oc == "PANIC":
            # `if id == 0 { panic!(VAR_ID_0_ERR) }` — documented guard on variables
            if any(c[0] == "binop" and c[1] == "Eq" and c[3][0] == "const" and c[3][3] == 0 for c, v in rel):
                continue
        out.add(oc)
    return out


def anon_elements(path):
    """Element terms X for which the path established `X is $_` (by `X == Unifiable::Anonymous` or by a pattern /
    matches! test), other than the two top-level operands."""
    out = []
    for e in path.events:
        if e["k"] != "branch":
            continue
        c = e["cond"]
        x = None
        if c[0] == "variant" and e["value"] == "Anonymous":
            x = strip(c[1])
        elif c[0] == "call" and c[1].endswith("::eq") and e["value"] is True and len(c[2]) == 2:
            a, b = c[2]
            if isinstance(b, tuple) and b[0] == "agg" and b[2] == "Anonymous":
                x = strip(a)
            elif isinstance(a, tuple) and a[0] == "agg" and a[2] == "Anonymous":
                x = strip(b)
        if x is None or is_param(x, 1) or is_param(x, 2):
            continue
        out.append(x)
    return out


def functor_position(x):
    """Is x the element at position 0 of its collection (`v[0]`, or the first item of a forward iteration)?"""
    import iters
    pos = iters.position(x)
    if pos is None:
        return False
    key = pos[1]
    if key[0] == "term":
        return key[1][0] == "const" and key[1][3] == 0
    if key[0] == "step" and key[2] == 0:
        site = key[1][3] if len(key[1]) > 3 else None
        return bool(site) and site[1] == 0          # first visit of the block holding the next() call
    return False


SS_ELEM = "std::option::Option<std::rc::Rc<unifiable::Unifiable>>"


def is_ss_lookup(term_json):
    """A MIR call terminator that reads (or gives access to) the entry of a substitution set under a key:
    `ss[i]` (Index / IndexMut on the vector or a slice of it) or `ss.get(i)` / `get_mut(i)`."""
    c = term_json["callee"]
    nm = c.get("resolved") or c.get("path") or ""
    if not any(nm.endswith(x) for x in ("::index", "::index_mut", "::get", "::get_mut", "::get_unchecked")):
        return False
    pa = (c.get("path_args") or "").replace(" ", "")
    return SS_ELEM in pa or "SubstitutionSet" in pa
