"""Compile-fail witnesses (thorough tier of C01 and C22): builds the harness crate in /verif/witnesses against the
tree under analysis in a scratch directory and reads rustdoc's verdict for every doctest."""
import os
import re
import shutil
import subprocess
import tempfile

VERIF = os.path.dirname(os.path.dirname(os.path.abspath(__file__)))


def run(repo):
    """Returns list of (test name, kind 'compile fail'|'twin', ok) or None when the harness could not be run."""
    d = tempfile.mkdtemp(prefix="suiron-witness-")
    try:
        shutil.copytree(os.path.join(VERIF, "witnesses", "src"), os.path.join(d, "src"))
        with open(os.path.join(VERIF, "witnesses", "Cargo.toml.in")) as f:
            toml = f.read().replace("@REPO@", os.path.abspath(repo))
        with open(os.path.join(d, "Cargo.toml"), "w") as f:
            f.write(toml)
        lock = os.path.join(repo, "Cargo.lock")
        if os.path.exists(lock):
            shutil.copy(lock, os.path.join(d, "Cargo.lock"))
        env = dict(os.environ, CARGO_NET_OFFLINE="true", CARGO_TARGET_DIR=os.path.join(d, "target"))
        r = subprocess.run(["cargo", "+nightly", "test", "--doc", "--offline"], cwd=d, env=env, capture_output=True, text=True)
        out = r.stdout + r.stderr
        res = []
        for m in re.finditer(r"test src/lib\.rs - (\w+) \(line (\d+)\)( - compile fail)? \.\.\. (\w+)", out):
            res.append((m.group(1), "compile fail" if m.group(3) else "twin", m.group(4) == "ok"))
        if not res:
            return None, out[-1500:]
        return res, ""
    finally:
        shutil.rmtree(d, ignore_errors=True)
