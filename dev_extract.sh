#!/bin/sh
# development helper: extract facts of a repo tree into a directory (default /tmp/facts0)
REPO=${1:-/repo}; F=${2:-/tmp/facts0}
rm -rf $F; mkdir -p $F; D=$(mktemp -d)
( cd $REPO && LD_LIBRARY_PATH=$(rustc +nightly --print sysroot)/lib RUSTFLAGS="-Zmir-opt-level=0 -Awarnings" RUSTC_WORKSPACE_WRAPPER=/verif/extractor/target/debug/suiron-facts SUIRON_FACTS_DIR=$F CARGO_TARGET_DIR=$D CARGO_NET_OFFLINE=true cargo +nightly check --offline --lib --bins 2>&1 | tail -2 )
rm -rf $D; ls $F
