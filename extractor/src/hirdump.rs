//! Typed HIR → JSON (expression tree with resolved paths, methods, types).
use crate::json::J;
use crate::span_j;
use rustc_hir as hir;
use rustc_hir::def::{DefKind, Res};
use rustc_hir::def_id::LocalDefId;
use rustc_hir::{Expr, ExprKind, Pat, PatKind, QPath, StmtKind};
use rustc_middle::ty::{TyCtxt, TypeckResults};

struct H<'tcx> {
    tcx: TyCtxt<'tcx>,
    tr: &'tcx TypeckResults<'tcx>,
}

impl<'tcx> H<'tcx> {
    fn res_j(&self, res: Res) -> J {
        let tcx = self.tcx;
        match res {
            Res::Local(id) => {
                let name = tcx.hir_name(id).to_string();
                J::obj()
                    .set("res", J::s("local"))
                    .set("name", J::s(name))
                    .set("id", J::s(format!("{}.{}", id.owner.def_id.local_def_index.as_u32(), id.local_id.as_u32())))
            }
            Res::Def(kind, did) => {
                let mut j = J::obj()
                    .set("res", J::s("def"))
                    .set("def_kind", J::s(format!("{:?}", kind)))
                    .set("path", J::s(tcx.def_path_str(did)));
                match kind {
                    DefKind::Ctor(of, _) => {
                        // constructor of a variant or struct
                        let parent = tcx.parent(did);
                        match of {
                            hir::def::CtorOf::Variant => {
                                let en = tcx.parent(parent);
                                j.put("adt", J::s(tcx.def_path_str(en)));
                                j.put("variant", J::s(tcx.item_name(parent).to_string()));
                            }
                            hir::def::CtorOf::Struct => {
                                j.put("adt", J::s(tcx.def_path_str(parent)));
                            }
                        }
                    }
                    DefKind::Variant => {
                        let en = tcx.parent(did);
                        j.put("adt", J::s(tcx.def_path_str(en)));
                        j.put("variant", J::s(tcx.item_name(did).to_string()));
                    }
                    DefKind::Static { .. } => {
                        j.put("static_mut", J::Bool(tcx.static_mutability(did) == Some(hir::Mutability::Mut)));
                    }
                    _ => {}
                }
                j
            }
            other => J::obj().set("res", J::s("other")).set("repr", J::s(format!("{:?}", other))),
        }
    }

    fn qpath_j(&self, qp: &QPath<'tcx>, id: hir::HirId) -> J {
        let res = self.tr.qpath_res(qp, id);
        self.res_j(res)
    }

    fn pat(&self, p: &Pat<'tcx>) -> J {
        let ty = self.tr.pat_ty(p);
        let mut j = J::obj().set("ty", J::s(format!("{}", ty)));
        match &p.kind {
            PatKind::Wild | PatKind::Missing => j.put("k", J::s("wild")),
            PatKind::Binding(mode, id, ident, sub) => {
                j.put("k", J::s("binding"));
                j.put("name", J::s(ident.name.to_string()));
                j.put("id", J::s(format!("{}.{}", id.owner.def_id.local_def_index.as_u32(), id.local_id.as_u32())));
                j.put("mode", J::s(format!("{:?}", mode)));
                if let Some(s) = sub { j.put("sub", self.pat(s)); }
            }
            PatKind::Struct(qp, fields, rest) => {
                j.put("k", J::s("struct"));
                j.put("path", self.qpath_j(qp, p.hir_id));
                let mut fs = vec![];
                for f in fields.iter() {
                    fs.push(J::obj().set("name", J::s(f.ident.name.to_string())).set("pat", self.pat(f.pat)));
                }
                j.put("fields", J::Arr(fs));
                j.put("rest", J::Bool(rest.is_some()));
            }
            PatKind::TupleStruct(qp, pats, _) => {
                j.put("k", J::s("tuplestruct"));
                j.put("path", self.qpath_j(qp, p.hir_id));
                j.put("pats", J::Arr(pats.iter().map(|x| self.pat(x)).collect()));
            }
            PatKind::Or(pats) => {
                j.put("k", J::s("or"));
                j.put("pats", J::Arr(pats.iter().map(|x| self.pat(x)).collect()));
            }
            PatKind::Tuple(pats, _) => {
                j.put("k", J::s("tuple"));
                j.put("pats", J::Arr(pats.iter().map(|x| self.pat(x)).collect()));
            }
            PatKind::Box(x) | PatKind::Deref(x) => {
                j.put("k", J::s("deref"));
                j.put("pat", self.pat(x));
            }
            PatKind::Ref(x, ..) => {
                j.put("k", J::s("ref"));
                j.put("pat", self.pat(x));
            }
            PatKind::Expr(pe) => match &pe.kind {
                hir::PatExprKind::Path(qp) => {
                    j.put("k", J::s("path"));
                    j.put("path", self.qpath_j(qp, pe.hir_id));
                }
                hir::PatExprKind::Lit { lit, negated } => {
                    j.put("k", J::s("lit"));
                    j.put("lit", self.lit(lit));
                    j.put("negated", J::Bool(*negated));
                }
            },
            PatKind::Guard(x, g) => {
                j.put("k", J::s("guard"));
                j.put("pat", self.pat(x));
                j.put("cond", self.expr(g));
            }
            PatKind::Range(..) => j.put("k", J::s("range")),
            PatKind::Slice(a, m, b) => {
                j.put("k", J::s("slice"));
                j.put("before", J::Arr(a.iter().map(|x| self.pat(x)).collect()));
                j.put("mid", match m { Some(x) => self.pat(x), None => J::Null });
                j.put("after", J::Arr(b.iter().map(|x| self.pat(x)).collect()));
            }
            _ => j.put("k", J::s("other")),
        }
        j
    }

    fn lit(&self, l: &hir::Lit) -> J {
        use rustc_ast::ast::LitKind;
        match &l.node {
            LitKind::Str(s, _) => J::obj().set("lk", J::s("str")).set("v", J::s(s.to_string())),
            LitKind::Char(c) => J::obj().set("lk", J::s("char")).set("v", J::s(c.to_string())),
            LitKind::Int(i, _) => J::obj().set("lk", J::s("int")).set("v", J::Int(i.get() as i128)),
            LitKind::Float(s, _) => J::obj().set("lk", J::s("float")).set("v", J::s(s.to_string())),
            LitKind::Bool(b) => J::obj().set("lk", J::s("bool")).set("v", J::Bool(*b)),
            LitKind::Byte(b) => J::obj().set("lk", J::s("byte")).set("v", J::Int(*b as i128)),
            other => J::obj().set("lk", J::s("other")).set("v", J::s(format!("{:?}", other))),
        }
    }

    fn block(&self, b: &hir::Block<'tcx>) -> J {
        let mut stmts = vec![];
        for s in b.stmts.iter() {
            let (line, _, exp) = span_j(self.tcx, s.span);
            match &s.kind {
                StmtKind::Let(l) => {
                    let mut j = J::obj().set("k", J::s("let")).set("line", J::Int(line)).set("exp", exp).set("pat", self.pat(l.pat));
                    if let Some(i) = l.init { j.put("init", self.expr(i)); }
                    if let Some(e) = l.els { j.put("els", self.block(e)); }
                    stmts.push(j);
                }
                StmtKind::Expr(e) => stmts.push(J::obj().set("k", J::s("expr")).set("line", J::Int(line)).set("exp", exp).set("e", self.expr(e))),
                StmtKind::Semi(e) => stmts.push(J::obj().set("k", J::s("semi")).set("line", J::Int(line)).set("exp", exp).set("e", self.expr(e))),
                StmtKind::Item(_) => stmts.push(J::obj().set("k", J::s("item")).set("line", J::Int(line))),
            }
        }
        let mut j = J::obj().set("stmts", J::Arr(stmts));
        j.put("expr", match b.expr { Some(e) => self.expr(e), None => J::Null });
        j.put("unsafe", J::Bool(matches!(b.rules, hir::BlockCheckMode::UnsafeBlock(_))));
        j
    }

    fn expr(&self, e: &Expr<'tcx>) -> J {
        let tcx = self.tcx;
        let (line, _, exp) = span_j(tcx, e.span);
        let ty = self.tr.expr_ty(e);
        let mut j = J::obj()
            .set("line", J::Int(line))
            .set("exp", exp)
            .set("ty", J::s(format!("{}", ty)));
        let adj = self.tr.expr_adjustments(e);
        if !adj.is_empty() {
            j.put("adj_ty", J::s(format!("{}", self.tr.expr_ty_adjusted(e))));
            j.put("adj", J::Arr(adj.iter().map(|a| J::s(format!("{:?}", a.kind))).collect()));
        }
        match &e.kind {
            ExprKind::Array(xs) => {
                j.put("k", J::s("Array"));
                j.put("elems", J::Arr(xs.iter().map(|x| self.expr(x)).collect()));
            }
            ExprKind::Call(f, args) => {
                j.put("k", J::s("Call"));
                j.put("f", self.expr(f));
                j.put("args", J::Arr(args.iter().map(|x| self.expr(x)).collect()));
            }
            ExprKind::MethodCall(seg, recv, args, _) => {
                j.put("k", J::s("MethodCall"));
                j.put("name", J::s(seg.ident.name.to_string()));
                if let Some(did) = self.tr.type_dependent_def_id(e.hir_id) {
                    j.put("method", J::s(tcx.def_path_str(did)));
                    let ga = self.tr.node_args(e.hir_id);
                    j.put("method_args", J::s(tcx.def_path_str_with_args(did, ga)));
                }
                j.put("recv", self.expr(recv));
                j.put("args", J::Arr(args.iter().map(|x| self.expr(x)).collect()));
            }
            ExprKind::Use(x, _) => {
                j.put("k", J::s("Use"));
                j.put("e", self.expr(x));
            }
            ExprKind::Tup(xs) => {
                j.put("k", J::s("Tup"));
                j.put("elems", J::Arr(xs.iter().map(|x| self.expr(x)).collect()));
            }
            ExprKind::Binary(op, l, r) => {
                j.put("k", J::s("Binary"));
                j.put("op", J::s(format!("{:?}", op.node)));
                if let Some(did) = self.tr.type_dependent_def_id(e.hir_id) {
                    j.put("method", J::s(tcx.def_path_str(did)));
                }
                j.put("l", self.expr(l));
                j.put("r", self.expr(r));
            }
            ExprKind::Unary(op, x) => {
                j.put("k", J::s("Unary"));
                j.put("op", J::s(format!("{:?}", op)));
                if let Some(did) = self.tr.type_dependent_def_id(e.hir_id) {
                    j.put("method", J::s(tcx.def_path_str(did)));
                }
                j.put("e", self.expr(x));
            }
            ExprKind::Lit(l) => {
                j.put("k", J::s("Lit"));
                j.put("lit", self.lit(l));
            }
            ExprKind::Cast(x, _) => {
                j.put("k", J::s("Cast"));
                j.put("e", self.expr(x));
            }
            ExprKind::Type(x, _) => {
                j.put("k", J::s("Type"));
                j.put("e", self.expr(x));
            }
            ExprKind::DropTemps(x) => {
                return self.expr(x);
            }
            ExprKind::Let(l) => {
                j.put("k", J::s("Let"));
                j.put("pat", self.pat(l.pat));
                j.put("init", self.expr(l.init));
            }
            ExprKind::If(c, t, el) => {
                j.put("k", J::s("If"));
                j.put("cond", self.expr(c));
                j.put("then", self.expr(t));
                j.put("else", match el { Some(x) => self.expr(x), None => J::Null });
            }
            ExprKind::Loop(b, label, src, _) => {
                j.put("k", J::s("Loop"));
                j.put("src", J::s(format!("{:?}", src)));
                j.put("label", match label { Some(l) => J::s(l.ident.name.to_string()), None => J::Null });
                j.put("id", J::s(format!("{}", e.hir_id.local_id.as_u32())));
                j.put("body", self.block(b));
            }
            ExprKind::Match(scrut, arms, src) => {
                j.put("k", J::s("Match"));
                j.put("src", J::s(format!("{:?}", src)));
                j.put("scrut", self.expr(scrut));
                let mut as_ = vec![];
                for a in arms.iter() {
                    let (al, _, _) = span_j(tcx, a.span);
                    as_.push(J::obj()
                        .set("line", J::Int(al))
                        .set("pat", self.pat(a.pat))
                        .set("guard", match a.guard { Some(g) => self.expr(g), None => J::Null })
                        .set("body", self.expr(a.body)));
                }
                j.put("arms", J::Arr(as_));
            }
            ExprKind::Closure(c) => {
                j.put("k", J::s("Closure"));
                j.put("def", J::s(tcx.def_path_str(c.def_id.to_def_id())));
            }
            ExprKind::Block(b, label) => {
                j.put("k", J::s("Block"));
                j.put("label", match label { Some(l) => J::s(l.ident.name.to_string()), None => J::Null });
                j.put("block", self.block(b));
            }
            ExprKind::Assign(l, r, _) => {
                j.put("k", J::s("Assign"));
                j.put("l", self.expr(l));
                j.put("r", self.expr(r));
            }
            ExprKind::AssignOp(op, l, r) => {
                j.put("k", J::s("AssignOp"));
                j.put("op", J::s(format!("{:?}", op.node)));
                j.put("l", self.expr(l));
                j.put("r", self.expr(r));
            }
            ExprKind::Field(x, ident) => {
                j.put("k", J::s("Field"));
                j.put("name", J::s(ident.name.to_string()));
                j.put("e", self.expr(x));
            }
            ExprKind::Index(x, i, _) => {
                j.put("k", J::s("Index"));
                if let Some(did) = self.tr.type_dependent_def_id(e.hir_id) {
                    j.put("method", J::s(tcx.def_path_str(did)));
                }
                j.put("e", self.expr(x));
                j.put("idx", self.expr(i));
            }
            ExprKind::Path(qp) => {
                j.put("k", J::s("Path"));
                j.put("path", self.qpath_j(qp, e.hir_id));
            }
            ExprKind::AddrOf(bk, m, x) => {
                j.put("k", J::s("AddrOf"));
                j.put("raw", J::Bool(matches!(bk, hir::BorrowKind::Raw)));
                j.put("mut", J::Bool(m.is_mut()));
                j.put("e", self.expr(x));
            }
            ExprKind::Break(dest, x) => {
                j.put("k", J::s("Break"));
                j.put("target", match dest.target_id { Ok(id) => J::s(format!("{}", id.local_id.as_u32())), Err(_) => J::Null });
                j.put("e", match x { Some(x) => self.expr(x), None => J::Null });
            }
            ExprKind::Continue(dest) => {
                j.put("k", J::s("Continue"));
                j.put("target", match dest.target_id { Ok(id) => J::s(format!("{}", id.local_id.as_u32())), Err(_) => J::Null });
            }
            ExprKind::Ret(x) => {
                j.put("k", J::s("Ret"));
                j.put("e", match x { Some(x) => self.expr(x), None => J::Null });
            }
            ExprKind::Struct(qp, fields, tail) => {
                j.put("k", J::s("Struct"));
                j.put("path", self.qpath_j(qp, e.hir_id));
                let mut fs = vec![];
                for f in fields.iter() {
                    fs.push(J::obj().set("name", J::s(f.ident.name.to_string())).set("e", self.expr(f.expr)));
                }
                j.put("fields", J::Arr(fs));
                if let hir::StructTailExpr::Base(b) = tail { j.put("base", self.expr(b)); }
            }
            ExprKind::Repeat(x, _) => {
                j.put("k", J::s("Repeat"));
                j.put("e", self.expr(x));
            }
            ExprKind::InlineAsm(_) => j.put("k", J::s("InlineAsm")),
            ExprKind::ConstBlock(_) => j.put("k", J::s("ConstBlock")),
            _ => {
                j.put("k", J::s("Other"));
            }
        }
        j
    }
}

pub fn body_j<'tcx>(tcx: TyCtxt<'tcx>, ldid: LocalDefId) -> J {
    let body = tcx.hir_body_owned_by(ldid);
    let tr = tcx.typeck(ldid);
    let h = H { tcx, tr };
    let mut params = vec![];
    for p in body.params.iter() {
        params.push(h.pat(p.pat));
    }
    J::obj().set("params", J::Arr(params)).set("value", h.expr(body.value))
}
