//! Minimal JSON value + serializer (no dependencies).
use std::fmt::Write;

#[derive(Clone, Debug)]
pub enum J {
    Null,
    Bool(bool),
    Int(i128),
    Str(String),
    Arr(Vec<J>),
    Obj(Vec<(String, J)>),
}

impl J {
    pub fn obj() -> J { J::Obj(Vec::new()) }
    pub fn s<T: Into<String>>(t: T) -> J { J::Str(t.into()) }
    pub fn set<T: Into<String>>(mut self, k: T, v: J) -> J {
        if let J::Obj(ref mut o) = self { o.push((k.into(), v)); }
        self
    }
    pub fn put<T: Into<String>>(&mut self, k: T, v: J) {
        if let J::Obj(ref mut o) = self { o.push((k.into(), v)); }
    }
    pub fn write(&self, out: &mut String) {
        match self {
            J::Null => out.push_str("null"),
            J::Bool(b) => out.push_str(if *b { "true" } else { "false" }),
            J::Int(i) => { let _ = write!(out, "{}", i); }
            J::Str(s) => esc(s, out),
            J::Arr(a) => {
                out.push('[');
                for (i, x) in a.iter().enumerate() {
                    if i > 0 { out.push(','); }
                    x.write(out);
                }
                out.push(']');
            }
            J::Obj(o) => {
                out.push('{');
                for (i, (k, v)) in o.iter().enumerate() {
                    if i > 0 { out.push(','); }
                    esc(k, out);
                    out.push(':');
                    v.write(out);
                }
                out.push('}');
            }
        }
    }
}

fn esc(s: &str, out: &mut String) {
    out.push('"');
    for c in s.chars() {
        match c {
            '"' => out.push_str("\\\""),
            '\\' => out.push_str("\\\\"),
            '\n' => out.push_str("\\n"),
            '\r' => out.push_str("\\r"),
            '\t' => out.push_str("\\t"),
            c if (c as u32) < 0x20 => { let _ = write!(out, "\\u{:04x}", c as u32); }
            c => out.push(c),
        }
    }
    out.push('"');
}
