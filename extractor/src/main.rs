//! suiron-facts: a rustc_private driver that dumps the type-checked program
//! (typed HIR + MIR + items) of the crate being compiled as one JSON file.
//!
//! Used as RUSTC_WORKSPACE_WRAPPER / RUSTC_WRAPPER under `cargo +nightly check`.
//! Output directory: $SUIRON_FACTS_DIR (one file per crate/target, one write).
#![feature(rustc_private)]
#![allow(clippy::all)]
extern crate rustc_abi;
extern crate rustc_ast;
extern crate rustc_driver;
extern crate rustc_hir;
extern crate rustc_index;
extern crate rustc_interface;
extern crate rustc_middle;
extern crate rustc_mir_dataflow;
extern crate rustc_span;

mod json;
mod mirdump;
mod hirdump;

use json::J;
use rustc_driver::{Callbacks, Compilation};
use rustc_hir::def::DefKind;
use rustc_hir::def_id::LOCAL_CRATE;
use rustc_interface::interface::Compiler;
use rustc_middle::ty::{self, TyCtxt};
use rustc_span::Span;

pub fn span_j<'tcx>(tcx: TyCtxt<'tcx>, span: Span) -> (i128, String, J) {
    // line/file of the outermost call site (so macro-generated code is
    // attributed to the line the user wrote), plus expansion provenance.
    let exp = if span.from_expansion() {
        let d = span.ctxt().outer_expn_data();
        J::s(format!("{:?}", d.kind))
    } else {
        J::Null
    };
    let root = span.source_callsite();
    let mut s = root;
    // walk to the outermost callsite
    let mut guard = 0;
    while s.from_expansion() && guard < 32 {
        s = s.source_callsite();
        guard += 1;
    }
    let sm = tcx.sess.source_map();
    let loc = sm.lookup_char_pos(s.lo());
    let file = format!("{:?}", loc.file.name);
    (loc.line as i128, file, exp)
}

pub fn short_file(f: &str) -> String {
    // Debug of FileName looks like Real(LocalPath("src/foo.rs")) or similar.
    let mut out = String::new();
    if let Some(i) = f.find('"') {
        if let Some(j) = f[i + 1..].find('"') {
            out = f[i + 1..i + 1 + j].to_string();
        }
    }
    if out.is_empty() { out = f.to_string(); }
    out
}

fn adts_j<'tcx>(tcx: TyCtxt<'tcx>) -> J {
    let mut arr = vec![];
    for id in tcx.hir_free_items() {
        let did = id.owner_id.to_def_id();
        let kind = tcx.def_kind(did);
        if !matches!(kind, DefKind::Struct | DefKind::Enum | DefKind::Union) { continue; }
        let adt = tcx.adt_def(did);
        let mut vs = vec![];
        for (vi, v) in adt.variants().iter_enumerated() {
            let mut fs = vec![];
            for f in v.fields.iter() {
                let fty = tcx.type_of(f.did).instantiate_identity().skip_norm_wip();
                fs.push(J::obj().set("name", J::s(f.name.to_string())).set("ty", J::s(format!("{}", fty))));
            }
            let discr = if adt.is_enum() { adt.discriminant_for_variant(tcx, vi).val as i128 } else { 0 };
            vs.push(J::obj()
                .set("name", J::s(v.name.to_string()))
                .set("discr", J::Int(discr))
                .set("fields", J::Arr(fs)));
        }
        let ty = tcx.type_of(did).instantiate_identity().skip_norm_wip();
        let tenv = ty::TypingEnv::post_analysis(tcx, did);
        let freeze = ty.is_freeze(tcx, tenv);
        arr.push(J::obj()
            .set("path", J::s(tcx.def_path_str(did)))
            .set("kind", J::s(format!("{:?}", kind)))
            .set("freeze", J::Bool(freeze))
            .set("variants", J::Arr(vs)));
    }
    J::Arr(arr)
}

fn items_j<'tcx>(tcx: TyCtxt<'tcx>) -> (J, J, J) {
    let mut statics = vec![];
    let mut impls = vec![];
    let mut aliases = vec![];
    for id in tcx.hir_free_items() {
        let did = id.owner_id.to_def_id();
        let kind = tcx.def_kind(did);
        match kind {
            DefKind::Static { .. } => {
                let ty = tcx.type_of(did).instantiate_identity().skip_norm_wip();
                let tenv = ty::TypingEnv::post_analysis(tcx, did);
                let (line, file, _) = span_j(tcx, tcx.def_span(did));
                statics.push(J::obj()
                    .set("path", J::s(tcx.def_path_str(did)))
                    .set("mutable", J::Bool(tcx.static_mutability(did) == Some(rustc_hir::Mutability::Mut)))
                    .set("ty", J::s(format!("{}", ty)))
                    .set("freeze", J::Bool(ty.is_freeze(tcx, tenv)))
                    .set("thread_local", J::Bool(tcx.is_thread_local_static(did)))
                    .set("line", J::Int(line))
                    .set("file", J::s(short_file(&file))));
            }
            DefKind::Impl { .. } => {
                let item = tcx.hir_item(id);
                let mut is_unsafe = false;
                let mut trait_path = J::Null;
                if let rustc_hir::ItemKind::Impl(imp) = &item.kind {
                    if let Some(tr) = tcx.impl_opt_trait_ref(did) {
                        let tr = tr.instantiate_identity().skip_norm_wip();
                        trait_path = J::s(tcx.def_path_str(tr.def_id));
                        let hdr = tcx.impl_trait_header(did);
                        is_unsafe = format!("{:?}", hdr.safety).contains("Unsafe");
                    }
                    let _ = imp;
                }
                let self_ty = tcx.type_of(did).instantiate_identity().skip_norm_wip();
                let (line, file, exp) = span_j(tcx, item.span);
                impls.push(J::obj()
                    .set("self_ty", J::s(format!("{}", self_ty)))
                    .set("trait", trait_path)
                    .set("unsafe", J::Bool(is_unsafe))
                    .set("line", J::Int(line))
                    .set("file", J::s(short_file(&file)))
                    .set("exp", exp));
            }
            DefKind::TyAlias => {
                let ty = tcx.type_of(did).instantiate_identity().skip_norm_wip();
                let tenv = ty::TypingEnv::post_analysis(tcx, did);
                aliases.push(J::obj()
                    .set("path", J::s(tcx.def_path_str(did)))
                    .set("ty", J::s(format!("{}", ty)))
                    .set("freeze", J::Bool(ty.is_freeze(tcx, tenv))));
            }
            _ => {}
        }
    }
    (J::Arr(statics), J::Arr(impls), J::Arr(aliases))
}

struct Cb;

impl Callbacks for Cb {
    fn after_analysis<'tcx>(&mut self, _c: &Compiler, tcx: TyCtxt<'tcx>) -> Compilation {
        let out_dir = match std::env::var("SUIRON_FACTS_DIR") {
            Ok(d) => d,
            Err(_) => return Compilation::Continue,
        };
        let krate = tcx.crate_name(LOCAL_CRATE).to_string();
        let only = std::env::var("SUIRON_FACTS_CRATES").unwrap_or_else(|_| "suiron,query,thread_timer".to_string());
        if !only.split(',').any(|c| c == krate) { return Compilation::Continue; }
        let crate_types = format!("{:?}", tcx.crate_types());
        let is_test = tcx.sess.is_test_crate();

        let mut bodies = vec![];
        let mut consts = vec![];
        for ldid in tcx.hir_body_owners() {
            let did = ldid.to_def_id();
            let kind = tcx.def_kind(did);
            let is_fn = matches!(kind, DefKind::Fn | DefKind::AssocFn | DefKind::Closure);
            if matches!(kind, DefKind::Const { .. } | DefKind::AssocConst { .. }) {
                // named constants (tables of names, limits): their typed HIR initialiser, so that a rule reading a
                // literal in a function can also read it when it was moved into a `const`
                let (line, file, _) = span_j(tcx, tcx.def_span(did));
                let ty = tcx.type_of(did).instantiate_identity().skip_norm_wip();
                consts.push(J::obj()
                    .set("path", J::s(tcx.def_path_str(did)))
                    .set("ty", J::s(format!("{}", ty)))
                    .set("file", J::s(short_file(&file)))
                    .set("line", J::Int(line))
                    .set("hir", hirdump::body_j(tcx, ldid)));
                continue;
            }
            if !is_fn { continue; }
            let path = tcx.def_path_str(did);
            let (line, file, exp) = span_j(tcx, tcx.def_span(did));
            let sm = tcx.sess.source_map();
            let full = tcx.hir_span_with_body(tcx.local_def_id_to_hir_id(ldid));
            let line_hi = sm.lookup_char_pos(full.hi()).line as i128;
            let line_lo = sm.lookup_char_pos(full.lo()).line as i128;
            let mut b = J::obj()
                .set("path", J::s(path.clone()))
                .set("kind", J::s(format!("{:?}", kind)))
                .set("file", J::s(short_file(&file)))
                .set("line", J::Int(line))
                .set("line_lo", J::Int(line_lo))
                .set("line_hi", J::Int(line_hi))
                .set("exp", exp);
            if matches!(kind, DefKind::Fn | DefKind::AssocFn) {
                b.put("vis", J::s(format!("{:?}", tcx.visibility(did))));
                let sig = tcx.fn_sig(did).instantiate_identity().skip_norm_wip();
                b.put("unsafe_fn", J::Bool(format!("{:?}", sig.safety()).contains("Unsafe")));
                b.put("sig", J::s(format!("{}", sig)));
                let ret = sig.output().skip_binder();
                b.put("ret_ty", J::s(format!("{}", ret)));
            } else {
                let parent = tcx.typeck_root_def_id(did);
                b.put("parent", J::s(tcx.def_path_str(parent)));
            }
            b.put("mir", mirdump::body_j(tcx, did));
            b.put("hir", hirdump::body_j(tcx, ldid));
            bodies.push(b);
        }
        let (statics, impls, aliases) = items_j(tcx);
        let root = J::obj()
            .set("crate", J::s(krate.clone()))
            .set("crate_types", J::s(crate_types.clone()))
            .set("is_test", J::Bool(is_test))
            .set("overflow_checks", J::Bool(tcx.sess.overflow_checks()))
            .set("opt_level", J::s(format!("{:?}", tcx.sess.opts.optimize)))
            .set("adts", adts_j(tcx))
            .set("statics", statics)
            .set("impls", impls)
            .set("aliases", aliases)
            .set("consts", J::Arr(consts))
            .set("bodies", J::Arr(bodies));
        let mut s = String::new();
        root.write(&mut s);
        let kind_tag = if crate_types.contains("Executable") { "bin" } else { "lib" };
        let fname = format!("{}/{}-{}{}.json", out_dir, krate, kind_tag, if is_test { "-test" } else { "" });
        std::fs::write(&fname, s).expect("cannot write facts");
        Compilation::Continue
    }
}

fn main() {
    let mut args: Vec<String> = std::env::args().collect();
    // As a (workspace) wrapper: argv[1] is the real rustc.
    if args.len() > 1 && (args[1].ends_with("rustc") || args[1].contains("/rustc")) {
        args.remove(1);
    }
    rustc_driver::run_compiler(&args, &mut Cb);
}
