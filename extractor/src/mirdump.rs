//! MIR → JSON.
use crate::json::J;
use crate::{short_file, span_j};
use rustc_hir::def_id::DefId;
use rustc_middle::mir::{
    self, AggregateKind, AssertKind, BorrowKind, Body, Operand, Place, ProjectionElem, Rvalue,
    StatementKind, TerminatorKind, UnwindAction,
};
use rustc_middle::mir::PlaceTy;
use rustc_middle::ty::{self, Ty, TyCtxt};
use rustc_mir_dataflow::impls::MaybeLiveLocals;
use rustc_mir_dataflow::Analysis;
use rustc_span::Span;

fn ty_j<'tcx>(tcx: TyCtxt<'tcx>, t: Ty<'tcx>) -> J {
    let mut o = J::obj().set("s", J::s(format!("{}", t)));
    match t.kind() {
        ty::Ref(_, inner, m) => {
            o.put("k", J::s("ref"));
            o.put("mut", J::Bool(m.is_mut()));
            o.put("to", J::s(format!("{}", inner)));
        }
        ty::RawPtr(inner, m) => {
            o.put("k", J::s("ptr"));
            o.put("mut", J::Bool(m.is_mut()));
            o.put("to", J::s(format!("{}", inner)));
        }
        ty::Adt(def, _) => {
            o.put("k", J::s("adt"));
            o.put("adt", J::s(tcx.def_path_str(def.did())));
        }
        ty::Closure(d, _) => {
            o.put("k", J::s("closure"));
            o.put("closure", J::s(tcx.def_path_str(*d)));
        }
        ty::FnDef(d, _) => {
            o.put("k", J::s("fndef"));
            o.put("fn", J::s(tcx.def_path_str(*d)));
        }
        ty::Bool => o.put("k", J::s("bool")),
        ty::Char => o.put("k", J::s("char")),
        ty::Int(_) => o.put("k", J::s("int")),
        ty::Uint(_) => o.put("k", J::s("uint")),
        ty::Float(_) => o.put("k", J::s("float")),
        ty::Tuple(_) => o.put("k", J::s("tuple")),
        ty::Slice(_) => o.put("k", J::s("slice")),
        ty::Array(..) => o.put("k", J::s("array")),
        ty::Str => o.put("k", J::s("str")),
        ty::FnPtr(..) => o.put("k", J::s("fnptr")),
        ty::Never => o.put("k", J::s("never")),
        _ => o.put("k", J::s("other")),
    }
    o
}

struct D<'a, 'tcx> {
    tcx: TyCtxt<'tcx>,
    body: &'a Body<'tcx>,
    def: DefId,
}

impl<'a, 'tcx> D<'a, 'tcx> {
    fn sp(&self, span: Span) -> (J, J) {
        let (line, _f, exp) = span_j(self.tcx, span);
        (J::Int(line), exp)
    }

    fn place(&self, p: &Place<'tcx>) -> J {
        let tcx = self.tcx;
        let mut pty = PlaceTy::from_ty(self.body.local_decls[p.local].ty);
        let mut proj = vec![];
        for elem in p.projection.iter() {
            match elem {
                ProjectionElem::Deref => proj.push(J::s("deref")),
                ProjectionElem::Field(f, fty) => {
                    let mut name = f.index().to_string();
                    let mut of = String::new();
                    if let ty::Adt(def, _) = pty.ty.kind() {
                        let v = pty.variant_index.unwrap_or(rustc_abi::FIRST_VARIANT);
                        if v.index() < def.variants().len() {
                            let vd = def.variant(v);
                            if f.index() < vd.fields.len() {
                                name = vd.fields[f].name.to_string();
                            }
                            of = tcx.def_path_str(def.did());
                            if def.is_enum() {
                                of = format!("{}::{}", of, vd.name);
                            }
                        }
                    }
                    proj.push(J::obj()
                        .set("field", J::s(name))
                        .set("idx", J::Int(f.index() as i128))
                        .set("of", J::s(of))
                        .set("ty", J::s(format!("{}", fty))));
                }
                ProjectionElem::Downcast(_, vidx) => {
                    let mut name = vidx.index().to_string();
                    if let ty::Adt(def, _) = pty.ty.kind() {
                        if vidx.index() < def.variants().len() {
                            name = def.variant(vidx).name.to_string();
                        }
                    }
                    proj.push(J::obj().set("downcast", J::s(name)));
                }
                ProjectionElem::Index(l) => proj.push(J::obj().set("index", J::Int(l.index() as i128))),
                ProjectionElem::ConstantIndex { offset, min_length, from_end } => proj.push(
                    J::obj()
                        .set("constindex", J::Int(offset as i128))
                        .set("min_length", J::Int(min_length as i128))
                        .set("from_end", J::Bool(from_end)),
                ),
                ProjectionElem::Subslice { from, to, from_end } => proj.push(
                    J::obj()
                        .set("subslice", J::Int(from as i128))
                        .set("to", J::Int(to as i128))
                        .set("from_end", J::Bool(from_end)),
                ),
                _ => proj.push(J::s("other")),
            }
            pty = pty.projection_ty(tcx, elem);
        }
        J::obj()
            .set("l", J::Int(p.local.index() as i128))
            .set("p", J::Arr(proj))
            .set("ty", J::s(format!("{}", pty.ty)))
    }

    fn operand(&self, o: &Operand<'tcx>) -> J {
        let tcx = self.tcx;
        match o {
            Operand::Copy(p) => J::obj().set("k", J::s("copy")).set("place", self.place(p)),
            Operand::Move(p) => J::obj().set("k", J::s("move")).set("place", self.place(p)),
            Operand::Constant(c) => {
                let ty = c.const_.ty();
                let mut j = J::obj()
                    .set("k", J::s("const"))
                    .set("ty", J::s(format!("{}", ty)))
                    .set("repr", J::s(format!("{}", c.const_)));
                if let ty::FnDef(d, args) = ty.kind() {
                    j.put("fn", J::s(tcx.def_path_str(*d)));
                    j.put("fn_args", J::s(format!("{:?}", args)));
                }
                if let mir::Const::Unevaluated(uv, _) = c.const_ {
                    if let Some(p) = uv.promoted {
                        j.put("promoted", J::Int(p.index() as i128));
                    }
                }
                if let Some(did) = c.check_static_ptr(tcx) {
                    j.put("static", J::s(tcx.def_path_str(did)));
                    j.put(
                        "static_mut",
                        J::Bool(tcx.static_mutability(did) == Some(rustc_hir::Mutability::Mut)),
                    );
                }
                if let Some(si) = c.const_.try_to_scalar_int() {
                    let size = si.size();
                    if ty.is_signed() {
                        j.put("int", J::Int(si.to_int(size)));
                    } else if ty.is_integral() || ty.is_bool() || ty.is_char() {
                        j.put("int", J::Int(si.to_bits(size) as i128));
                    } else if ty.is_floating_point() {
                        j.put("bits", J::Int(si.to_bits(size) as i128));
                    }
                    if ty.is_char() {
                        if let Some(ch) = char::from_u32(si.to_bits(size) as u32) {
                            j.put("char", J::s(ch.to_string()));
                        }
                    }
                }
                j
            }
            _ => J::obj().set("k", J::s("other")).set("repr", J::s(format!("{:?}", o))),
        }
    }

    fn rvalue(&self, rv: &Rvalue<'tcx>) -> J {
        let tcx = self.tcx;
        match rv {
            Rvalue::Use(op, ..) => J::obj().set("k", J::s("use")).set("op", self.operand(op)),
            Rvalue::Repeat(op, n) => J::obj()
                .set("k", J::s("repeat"))
                .set("op", self.operand(op))
                .set("n", J::s(format!("{}", n))),
            Rvalue::Ref(_, bk, p) => {
                let b = match bk {
                    BorrowKind::Shared => "shared",
                    BorrowKind::Fake(_) => "fake",
                    BorrowKind::Mut { .. } => "mut",
                };
                J::obj().set("k", J::s("ref")).set("bk", J::s(b)).set("place", self.place(p))
            }
            Rvalue::ThreadLocalRef(d) => {
                J::obj().set("k", J::s("tlsref")).set("static", J::s(tcx.def_path_str(*d)))
            }
            Rvalue::RawPtr(k, p) => J::obj()
                .set("k", J::s("rawptr"))
                .set("pk", J::s(format!("{:?}", k)))
                .set("place", self.place(p)),
            Rvalue::Cast(ck, op, ty) => J::obj()
                .set("k", J::s("cast"))
                .set("ck", J::s(format!("{:?}", ck)))
                .set("op", self.operand(op))
                .set("ty", J::s(format!("{}", ty))),
            Rvalue::BinaryOp(op, ops) => J::obj()
                .set("k", J::s("binop"))
                .set("op", J::s(format!("{:?}", op)))
                .set("l", self.operand(&ops.0))
                .set("r", self.operand(&ops.1)),
            Rvalue::UnaryOp(op, o) => J::obj()
                .set("k", J::s("unop"))
                .set("op", J::s(format!("{:?}", op)))
                .set("x", self.operand(o)),
            Rvalue::Discriminant(p) => {
                let pty = p.ty(&self.body.local_decls, tcx).ty;
                let mut variants = vec![];
                if let ty::Adt(def, _) = pty.kind() {
                    if def.is_enum() {
                        for (vi, v) in def.variants().iter_enumerated() {
                            let d = def.discriminant_for_variant(tcx, vi).val as i128;
                            variants.push(J::Arr(vec![J::Int(d), J::s(v.name.to_string())]));
                        }
                    }
                }
                J::obj()
                    .set("k", J::s("discriminant"))
                    .set("place", self.place(p))
                    .set("variants", J::Arr(variants))
            }
            Rvalue::Aggregate(ak, ops) => {
                let mut j = J::obj().set("k", J::s("aggregate"));
                match &**ak {
                    AggregateKind::Adt(did, vidx, _, _, _) => {
                        let def = tcx.adt_def(*did);
                        let v = def.variant(*vidx);
                        j.put("ak", J::s("adt"));
                        j.put("adt", J::s(tcx.def_path_str(*did)));
                        j.put("variant", J::s(v.name.to_string()));
                        j.put(
                            "fields",
                            J::Arr(v.fields.iter().map(|f| J::s(f.name.to_string())).collect()),
                        );
                    }
                    AggregateKind::Closure(d, _) => {
                        j.put("ak", J::s("closure"));
                        j.put("closure", J::s(tcx.def_path_str(*d)));
                    }
                    AggregateKind::Tuple => j.put("ak", J::s("tuple")),
                    AggregateKind::Array(_) => j.put("ak", J::s("array")),
                    AggregateKind::RawPtr(..) => j.put("ak", J::s("rawptr")),
                    _ => j.put("ak", J::s("other")),
                }
                j.put("ops", J::Arr(ops.iter().map(|o| self.operand(o)).collect()));
                j
            }
            Rvalue::CopyForDeref(p) => {
                J::obj().set("k", J::s("use")).set("op", J::obj().set("k", J::s("copy")).set("place", self.place(p))).set("cfd", J::Bool(true))
            }
            _ => J::obj().set("k", J::s("other")).set("repr", J::s(format!("{:?}", rv))),
        }
    }

    fn callee(&self, func: &Operand<'tcx>, args: &[rustc_span::Spanned<Operand<'tcx>>]) -> J {
        let tcx = self.tcx;
        let mut j = J::obj();
        if let Operand::Constant(c) = func {
            if let ty::FnDef(d, gargs) = c.const_.ty().kind() {
                j.put("path", J::s(tcx.def_path_str(*d)));
                j.put("path_args", J::s(tcx.def_path_str_with_args(*d, gargs)));
                j.put("local", J::Bool(d.is_local()));
                j.put("crate", J::s(tcx.crate_name(d.krate).to_string()));
                let sig = tcx.fn_sig(*d).instantiate_identity().skip_norm_wip();
                j.put("unsafe", J::Bool(format!("{:?}", sig.safety()).contains("Unsafe")));
                // self type for trait methods / first generic arg
                if let Some(t) = gargs.types().next() {
                    j.put("self_ty", J::s(format!("{}", t)));
                }
                // resolve trait calls
                let tenv = ty::TypingEnv::post_analysis(tcx, self.def);
                let needs_subst = gargs.iter().any(|a| format!("{:?}", a).contains("/#"));
                if !needs_subst {
                    if let Ok(Some(inst)) = ty::Instance::try_resolve(tcx, tenv, *d, gargs) {
                        let rd = inst.def_id();
                        j.put("resolved", J::s(tcx.def_path_str(rd)));
                        j.put("resolved_local", J::Bool(rd.is_local()));
                        j.put("resolved_kind", J::s(format!("{:?}", tcx.def_kind(rd))));
                    }
                }
                // closure arguments and whether their type parameter is Send-bounded
                let mut cl = vec![];
                for (i, a) in args.iter().enumerate() {
                    let t = a.node.ty(&self.body.local_decls, tcx);
                    let t0 = match t.kind() { ty::Ref(_, inner, _) => *inner, _ => t };
                    // a closure, or a plain function passed as a function value (`timer.start(d, stop_query)`)
                    let fdef = match t0.kind() { ty::Closure(cd, _) => Some((*cd, false)), ty::FnDef(fd, _) => Some((*fd, true)), _ => None };
                    if let Some((cd, is_fn)) = fdef {
                        let cd = &cd;
                        let mut send = false;
                        for (clause, _) in tcx.predicates_of(*d).instantiate(tcx, gargs).into_iter() {
                            let clause = clause.skip_norm_wip();
                            if let Some(tp) = clause.as_trait_clause() {
                                let tp = tp.skip_binder();
                                if tcx.is_diagnostic_item(rustc_span::sym::Send, tp.def_id()) && tp.self_ty() == t0 {
                                    send = true;
                                }
                            }
                        }
                        cl.push(J::obj()
                            .set("arg", J::Int(i as i128))
                            .set("closure", J::s(tcx.def_path_str(*cd)))
                            .set("fn_item", J::Bool(is_fn))
                            .set("send", J::Bool(send)));
                    }
                }
                j.put("closure_args", J::Arr(cl));
                return j;
            }
        }
        j.put("indirect", J::Bool(true));
        j.put("op", self.operand(func));
        j
    }

    fn unwind(&self, u: &UnwindAction) -> J {
        match u {
            UnwindAction::Cleanup(bb) => J::Int(bb.index() as i128),
            _ => J::Null,
        }
    }

    fn terminator(&self, t: &mir::Terminator<'tcx>) -> J {
        let (line, exp) = self.sp(t.source_info.span);
        let mut j = J::obj().set("line", line).set("exp", exp);
        match &t.kind {
            TerminatorKind::Goto { target } => {
                j.put("k", J::s("goto"));
                j.put("target", J::Int(target.index() as i128));
            }
            TerminatorKind::SwitchInt { discr, targets } => {
                j.put("k", J::s("switch"));
                j.put("discr", self.operand(discr));
                let mut ts = vec![];
                for (v, bb) in targets.iter() {
                    ts.push(J::Arr(vec![J::Int(v as i128), J::Int(bb.index() as i128)]));
                }
                j.put("targets", J::Arr(ts));
                j.put("otherwise", J::Int(targets.otherwise().index() as i128));
            }
            TerminatorKind::Return => j.put("k", J::s("return")),
            TerminatorKind::Unreachable => j.put("k", J::s("unreachable")),
            TerminatorKind::UnwindResume => j.put("k", J::s("resume")),
            TerminatorKind::UnwindTerminate(_) => j.put("k", J::s("terminate")),
            TerminatorKind::Drop { place, target, unwind, .. } => {
                j.put("k", J::s("drop"));
                j.put("place", self.place(place));
                j.put("target", J::Int(target.index() as i128));
                j.put("unwind", self.unwind(unwind));
            }
            TerminatorKind::Call { func, args, destination, target, unwind, fn_span, .. } => {
                j.put("k", J::s("call"));
                j.put("callee", self.callee(func, args));
                j.put("args", J::Arr(args.iter().map(|a| self.operand(&a.node)).collect()));
                j.put("dest", self.place(destination));
                j.put("target", match target { Some(b) => J::Int(b.index() as i128), None => J::Null });
                j.put("unwind", self.unwind(unwind));
                let (fl, fexp) = self.sp(*fn_span);
                j.put("fn_line", fl);
                j.put("fn_exp", fexp);
            }
            TerminatorKind::TailCall { func, args, .. } => {
                j.put("k", J::s("tailcall"));
                j.put("callee", self.callee(func, args));
                j.put("args", J::Arr(args.iter().map(|a| self.operand(&a.node)).collect()));
            }
            TerminatorKind::Assert { cond, expected, msg, target, unwind } => {
                j.put("k", J::s("assert"));
                j.put("cond", self.operand(cond));
                j.put("expected", J::Bool(*expected));
                j.put("target", J::Int(target.index() as i128));
                j.put("unwind", self.unwind(unwind));
                let m = match &**msg {
                    AssertKind::BoundsCheck { len, index } => J::obj()
                        .set("k", J::s("BoundsCheck"))
                        .set("len", self.operand(len))
                        .set("index", self.operand(index)),
                    AssertKind::Overflow(op, l, r) => J::obj()
                        .set("k", J::s("Overflow"))
                        .set("op", J::s(format!("{:?}", op)))
                        .set("l", self.operand(l))
                        .set("r", self.operand(r)),
                    AssertKind::OverflowNeg(o) => J::obj().set("k", J::s("OverflowNeg")).set("x", self.operand(o)),
                    AssertKind::DivisionByZero(o) => J::obj().set("k", J::s("DivisionByZero")).set("x", self.operand(o)),
                    AssertKind::RemainderByZero(o) => J::obj().set("k", J::s("RemainderByZero")).set("x", self.operand(o)),
                    AssertKind::MisalignedPointerDereference { .. } => J::obj().set("k", J::s("MisalignedPointerDereference")),
                    AssertKind::NullPointerDereference => J::obj().set("k", J::s("NullPointerDereference")),
                    other => J::obj().set("k", J::s("Other")).set("repr", J::s(format!("{:?}", other))),
                };
                j.put("msg", m);
            }
            TerminatorKind::FalseEdge { real_target, .. } => {
                j.put("k", J::s("goto"));
                j.put("target", J::Int(real_target.index() as i128));
            }
            TerminatorKind::FalseUnwind { real_target, .. } => {
                j.put("k", J::s("goto"));
                j.put("target", J::Int(real_target.index() as i128));
            }
            TerminatorKind::InlineAsm { .. } => j.put("k", J::s("asm")),
            other => {
                j.put("k", J::s("other"));
                j.put("repr", J::s(format!("{:?}", other)));
            }
        }
        j
    }

    fn statement(&self, s: &mir::Statement<'tcx>) -> Option<J> {
        let (line, exp) = self.sp(s.source_info.span);
        let base = J::obj().set("line", line).set("exp", exp);
        match &s.kind {
            StatementKind::Assign(b) => {
                let (p, rv) = &**b;
                Some(base.set("k", J::s("assign")).set("place", self.place(p)).set("rv", self.rvalue(rv)))
            }
            StatementKind::SetDiscriminant { place, variant_index } => Some(
                base.set("k", J::s("setdiscr"))
                    .set("place", self.place(place))
                    .set("variant", J::Int(variant_index.index() as i128)),
            ),
            StatementKind::Intrinsic(i) => Some(base.set("k", J::s("intrinsic")).set("repr", J::s(format!("{:?}", i)))),
            StatementKind::StorageLive(_)
            | StatementKind::StorageDead(_)
            | StatementKind::Nop
            | StatementKind::FakeRead(..)
            | StatementKind::PlaceMention(..)
            | StatementKind::AscribeUserType(..)
            | StatementKind::Coverage(..)
            | StatementKind::ConstEvalCounter
            | StatementKind::BackwardIncompatibleDropHint { .. } => None,
            #[allow(unreachable_patterns)]
            other => Some(base.set("k", J::s("other")).set("repr", J::s(format!("{:?}", other)))),
        }
    }
}

pub fn body_j<'tcx>(tcx: TyCtxt<'tcx>, did: DefId) -> J {
    let body: &Body<'tcx> = tcx.optimized_mir(did);
    let mut j = one_body_j(tcx, did, body);
    let mut proms = vec![];
    for pb in tcx.promoted_mir(did).iter() {
        proms.push(one_body_j(tcx, did, pb));
    }
    j.put("promoted", J::Arr(proms));
    j
}

fn one_body_j<'tcx>(tcx: TyCtxt<'tcx>, did: DefId, body: &Body<'tcx>) -> J {
    let d = D { tcx, body, def: did };
    // locals
    let mut names: Vec<Option<String>> = vec![None; body.local_decls.len()];
    let mut captured = vec![];
    for vdi in body.var_debug_info.iter() {
        if let mir::VarDebugInfoContents::Place(p) = &vdi.value {
            if p.projection.is_empty() {
                names[p.local.index()] = Some(vdi.name.to_string());
            } else {
                captured.push(J::obj().set("name", J::s(vdi.name.to_string())).set("place", d.place(p)));
            }
        }
    }
    let mut locals = vec![];
    for (l, decl) in body.local_decls.iter_enumerated() {
        let mut j = ty_j(tcx, decl.ty);
        if let Some(n) = &names[l.index()] { j.put("name", J::s(n.clone())); }
        j.put("mutable", J::Bool(decl.mutability.is_mut()));
        let (line, _, _) = span_j(tcx, decl.source_info.span);
        j.put("line", J::Int(line));
        locals.push(j);
    }
    // liveness at block starts
    let mut cursor = MaybeLiveLocals.iterate_to_fixpoint(tcx, body, None).into_results_cursor(body);
    let mut blocks = vec![];
    for (bb, data) in body.basic_blocks.iter_enumerated() {
        let mut stmts = vec![];
        for s in data.statements.iter() {
            if let Some(j) = d.statement(s) { stmts.push(j); }
        }
        cursor.seek_to_block_start(bb);
        let live: Vec<J> = cursor.get().iter().map(|l| J::Int(l.index() as i128)).collect();
        blocks.push(J::obj()
            .set("stmts", J::Arr(stmts))
            .set("term", d.terminator(data.terminator()))
            .set("cleanup", J::Bool(data.is_cleanup))
            .set("live_in", J::Arr(live)));
    }
    let (_, file, _) = span_j(tcx, body.span);
    J::obj()
        .set("arg_count", J::Int(body.arg_count as i128))
        .set("file", J::s(short_file(&file)))
        .set("locals", J::Arr(locals))
        .set("captured", J::Arr(captured))
        .set("blocks", J::Arr(blocks))
}
