#!/usr/bin/env python3
"""Regenerates MANIFEST.json from the rule modules present in analysis/rules."""
import importlib, json, os, sys
VERIF = os.path.dirname(os.path.abspath(__file__))
sys.path.insert(0, os.path.join(VERIF, "analysis"))
sys.dont_write_bytecode = True

TECH = {
 "C01": "path-sensitive provenance analysis over MIR (argument provenance, ordering, who-may-write)",
 "C02": "path-sensitive MIR analysis: must-pass-through of the cut-flag read, setter propagation, parent linkage",
 "C03": "outcome table of the Not arm extracted from MIR paths with variant refinement",
 "C04": "call-graph who-may-print rule + one-shot guard ordering on MIR paths",
 "C05": "who-may-write inventory of SolutionNode fields + cause-of-None classification on MIR paths",
 "C06": "dispatch table of unify() from MIR paths with variant refinement; finite-domain evaluation of payload tests; binder store provenance",
 "C07": "mirror-equivalence of the unify() dispatch table; decision-function symmetry of the list arm",
 "C08": "ordering rule on MIR paths: other operand dereferenced before the binder store",
 "C09": "row/column `Anonymous` of the unify() dispatch table; typed-HIR dropped-verdict statement shape",
 "C10": "typed MIR tables of recreate_variables; provenance of VarMap and id arguments; who-may-call of the id counter",
 "C11": "dataflow of the `name` field in solver-reachable code (names never index bindings)",
 "C12": "operator/accumulator table of the fold closures (MIR) and registry-chain agreement",
 "C13": "row/column `SFunction` of the unify() dispatch table; unify_sfunction cell shape",
 "C14": "finite-domain (ordering) evaluation of every comparison arm on MIR paths; registry-chain agreement",
 "C15": "typestate of element vectors: inventory of list builders classified element-opaque / element-inspecting from MIR paths, who-may-call rule on the inspecting (splicing) constructor with last-pushed-element variant refinement; count(next)+1 arithmetic of every SLinkedList aggregate on bounded-unrolled MIR paths; direction agreement between front-linking and element source — structural clauses of the property, the lists computed at run time are not decided",
 "C16": "MIR-path rules on the function dispatched for `append`: provenance of every contribution to the collected vector (current argument, through a tail-following list walk, never a whole list), argument order via iterator element provenance, result wiring; sibling agreement of list walks on tail-variable handling; includes C15's who-may-call rule on the splicing constructor — structural clauses only",
 "C17": "sibling cross-check of every built-in's list walk (tail-variable flag read, lookup with the substitution set, continuation into the bound list) on MIR paths; wiring of count / include / exclude; polarity and binds-nothing rules of the filter (outcome of the trial unification vs. flag, trial set used only as a test) — structural clauses only, functor and join are not decided",
 "C18": "panic-site inventory over parser-reachable MIR (explicit panics, unwraps, bounds/overflow asserts) with guard-based discharge",
 "C19": "writer/reader agreement between the token-grouping passes and the token-tree-to-goal pass (token kinds produced vs. handled, union over MIR paths); registry agreement Display(Infix) vs. the infix scanners; provenance of the value formatted in the number arms of Display(Unifiable) over MIR paths — structural clauses of the property, the round trip itself is not decided",
 "C20": "sibling cross-check of the scanners that classify a term's text for the term constructor, by finite-domain evaluation over the character alphabet: per scanner, flag and character class the effect (always / never / depends) of a first and of a later character is read off the MIR paths of one trip round the scanning loop (comparisons, `match` on the character, `char::is_ascii_digit`-style predicates; flags as locals or as fields of a struct; forwarding wrappers skipped) and compared between scanners; who-may-call rule on `str::parse::<i64|f64>`; call-graph and dominator rule that a term one scanner builds itself behind a detector function (arithmetic infix) is built by every scanner (one open known finding) — structural clauses of the property, equality of the parsers on every text is not decided",
 "C21": "error-discipline rule over the MIR paths of the file loader and the functions of its source file it reaches (every `Err` of a fallible step and every message of a line / bracket check leads to an error return without another loop trip); wiring of loader (reader -> rule parser -> insertion, in order, via iterator element provenance) and of reader (kept lines appended once, in order) — structural clauses only, the line joining / comment stripping / period splitting themselves are not decided",
 "C22": "inventory of process-wide mutable state read by the solver; must-write rule for query constructors",
 "C23": "typestate pairing start_query_timer/cancel_timer and flag-read ordering on MIR paths",
 "C24": "closed-world audit of unsafe operations in MIR: static-access thread reachability, raw-pointer provenance, liveness of node references across cutting calls",
}
NA = {
}
props = [json.loads(l)["id"] for l in open(os.path.join(VERIF, "properties.jsonl"))]
checks, na = [], []
for pid in props:
    path = os.path.join(VERIF, "analysis", "rules", pid + ".py")
    if os.path.exists(path) and pid not in NA:
        mod = importlib.import_module("rules." + pid)
        checks.append({
            "property_id": pid,
            "quick_cmd": "./check %s --tier quick" % pid,
            "thorough_cmd": "./check %s --tier thorough" % pid,
            "evidence_file": "/verif/evidence/%s.json" % pid,
            "replay_cmd_template": "./check %s --explain {path}" % pid,
            "engine": "suiron-static",
            "level_claimed": {"category": "other", "text": mod.EXPLANATION, "design_ref": "DESIGN.md §4 " + pid},
            "level_note": "Trusted: " + "; ".join(getattr(mod, "TRUSTED", ["rustc nightly HIR/MIR"])) +
                          ". Decides the structural rules " + mod.RULES,
            "technique": "static analysis: " + TECH[pid],
        })
    else:
        na.append({"property_id": pid, "reason": NA.get(pid, "no static rule built yet for this property (under construction); not claimed")})
man = {
 "version": 1,
 "setup_cmd": "./setup.sh",
 "hooks": {
  "guard": "indrikoterio_suiron_rust_verif",
  "enable": "none needed: the checks analyse the typed HIR/MIR of /repo's sources with the rustc driver; nothing of /repo is executed and no hook is compiled in",
  "baseline_off_cmd": "cd /repo && cargo nextest run --workspace --no-fail-fast --offline --test-threads 8",
  "source_commits": [],
  "add_only": True
 },
 "engines": [{"name": "suiron-static", "path": "/verif/check", "serves_properties": [c["property_id"] for c in checks],
              "kind_free_text": "rustc_private fact extractor (typed HIR + MIR as JSON) + Python rule modules: CFG/dominance queries, path-sensitive provenance walker with enum-variant refinement, call graph, finite-domain evaluator"}],
 "checks": checks,
 "not_applicable": na,
 "notes": "Static analysis only. Every check re-extracts facts from /repo's current working tree with a fresh target directory. known_findings.json lists recorded findings (one open: C20/R5, an arithmetic infix written as an argument) and the defects repaired by fix: commits."
}
json.dump(man, open(os.path.join(VERIF, "MANIFEST.json"), "w"), indent=1, ensure_ascii=False)
print(len(checks), "checks;", len(na), "not applicable")
