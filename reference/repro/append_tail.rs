// Triage only (not a check): append() and a bound tail variable (C16).
//   before 'fix: append() continues through a bound tail variable':  t1([a, [b, c], d])
//   after:                                                           t1([a, b, c, d])
use std::rc::Rc;
use suiron::*;
fn main(){
    let mut kb = KnowledgeBase::new();
    let rule = parse_rule("t1($X) :- $T = [b, c], append([a | $T], [d], $X).").unwrap();
    add_rules!(&mut kb, rule);
    let query = Rc::new(parse_query("t1($X)").unwrap());
    let sn = make_base_node(Rc::clone(&query), &kb);
    match next_solution(Rc::clone(&sn)) { Some(ss) => println!("{}", query.replace_variables(&ss)), None => println!("fails") }
}
