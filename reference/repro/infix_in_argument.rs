// Triage only (not part of any check): the same text, four contexts.  Drop into tests/ of a scratch copy of /repo.
// On c2178a1 the argument context differs from the other three:
//   alone / list element / infix operand : SFunction { name: "add", terms: [$X, 1] }
//   argument of f(...)                   : LogicVar { name: "$X + 1" }      ("3 - 1" -> Atom("3 - 1"))
use suiron::*;
#[test]
fn infix_text_in_four_contexts() {
    for s in ["$X + 1", "$X * 2", "3 - 1", "a + b"] {
        let alone = parse_term(s).unwrap();
        let lst = parse_linked_list(&format!("[{}]", s)).unwrap();
        let arg = parse_complex(&format!("f({})", s)).unwrap();
        let in_list = if let Unifiable::SLinkedList { term, .. } = lst { *term } else { panic!() };
        let in_arg = if let Unifiable::SComplex(ts) = arg { ts[1].clone() } else { panic!() };
        assert_eq!(format!("{:?}", alone), format!("{:?}", in_list), "list element: {}", s);
        assert_eq!(format!("{:?}", alone), format!("{:?}", in_arg), "argument: {}", s);   // fails
    }
}
