// Triage only (not a check): reproduces the C15 defects repaired by the two "fix:" commits of 2026-09-22.
//   before:  t1 => [a, b]        t2 => [[b], c]     t3 => [[b]]    renamed: [$X_1, b, c]   renamed []: count 1
//   after:   t1 => [a, [b]]      t2 => [[b], [c]]   t3 => [[b], []] renamed: [$X_1, [b, c]] renamed []: count 0
use std::rc::Rc;
use suiron::*;
fn ask(kb:&KnowledgeBase,q:&str){
    let query = Rc::new(parse_query(q).unwrap());
    let sn = make_base_node(Rc::clone(&query), kb);
    match next_solution(Rc::clone(&sn)) { Some(ss) => println!("{}", query.replace_variables(&ss)), None => println!("{} fails", q) }
}
fn main(){
    let mut kb = KnowledgeBase::new();
    for r in ["t1($X) :- append(a, [[b]], $X).",
              "t2($X) :- $L = [a, [b], [c]], include([$_], $L, $X).",
              "t3($X) :- $L = [a, [b], []], exclude(a, $L, $X)."] {
        let rule = parse_rule(r).unwrap();
        add_rules!(&mut kb, rule);
    }
    for q in ["t1($X)","t2($X)","t3($X)"] { ask(&kb,q); }
    let list = make_linked_list(false, vec![logic_var!("$X"), parse_linked_list("[b, c]").unwrap(), parse_linked_list("[]").unwrap()]);
    let mut vars = VarMap::new();
    println!("built {}  renamed {}", list.clone(), list.recreate_variables(&mut vars));
    println!("renamed []: {:?}", parse_linked_list("[]").unwrap().recreate_variables(&mut vars));
}
