// Triage only (not a check): a rule line that cannot be read (invalid UTF-8) was skipped silently by read_facts_and_rules() (C21).
//   before the fix: result: None, keys: ["a/1", "c/1"]      after: result: Some("Cannot read line 2: ...")
use suiron::*;
use std::io::Write;
fn main(){
    let path = "/tmp/tri/bad_utf8.txt";
    let mut f = std::fs::File::create(path).unwrap();
    f.write_all(b"a(1).\nb(\xff).\nc(3).\n").unwrap();
    drop(f);
    let mut kb = KnowledgeBase::new();
    let r = load_kb_from_file(&mut kb, path);
    println!("result: {:?}", r);
    let mut keys: Vec<_> = kb.keys().cloned().collect(); keys.sort();
    println!("keys: {:?}", keys);
    println!("{:?}", read_facts_and_rules(path));
}
