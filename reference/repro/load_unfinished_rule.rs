// Triage only (not a check): a file whose last fact / rule has no final period (C21).
//   before the fix: `a(1).\nb(2),` loads as a/1 only and load_kb_from_file() returns None; after: Some("Missing period at end of: b(2),")
use suiron::*;
use std::io::Write;
fn main(){
    for (name, text) in [("trailing", "a(1).\nb(2),\n"), ("trailing2", "a(1).\nb(2) :- c(3),\n"), ("ok", "a(1).\nb(2).\n")] {
        let path = format!("/tmp/tri/{}.txt", name);
        let mut f = std::fs::File::create(&path).unwrap();
        f.write_all(text.as_bytes()).unwrap();
        drop(f);
        let mut kb = KnowledgeBase::new();
        let r = load_kb_from_file(&mut kb, &path);
        let mut keys: Vec<_> = kb.keys().cloned().collect(); keys.sort();
        println!("{:10} result: {:?}  keys: {:?}", name, r, keys);
    }
}
