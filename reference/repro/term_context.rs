// Triage only (not a check): the same term text in three contexts (C20).
//   before 'fix: a number is classified the same way on its own and in an argument list':
//     -5   alone=Atom("-5")  arg=SInteger(-5)  elem=Atom("-5")       5-  alone=Atom("5-")  arg=ERR(Invalid integer)
//     1 2  alone=Atom("1 2") arg=ERR(Invalid integer)
//   after: the three contexts agree on each of them (SInteger(-5); Atom("5-"); ERR(Invalid integer)).
use suiron::*;
fn show(r: Result<Unifiable,String>) -> String { match r { Ok(t) => format!("{:?}", t), Err(e) => format!("ERR({})", &e[..e.len().min(15)]) } }
fn arg0(r: Result<Unifiable,String>) -> String { match r { Ok(Unifiable::SComplex(ts)) => format!("{:?}", ts[1]), Ok(t) => format!("?{:?}", t), Err(e) => format!("ERR({})", &e[..e.len().min(15)]) } }
fn el0(r: Result<Unifiable,String>) -> String { match r { Ok(Unifiable::SLinkedList{term,..}) => format!("{:?}", *term), Ok(t) => format!("?{:?}", t), Err(e) => format!("ERR({})", &e[..e.len().min(15)]) } }
fn main(){
    for t in ["-5","+7","-5.5","1 2","5-","-0","a b","7"] {
        println!("{:6} alone={}  arg={}  elem={}", t, show(parse_term(t)), arg0(parse_complex(&format!("f({})", t))), el0(parse_linked_list(&format!("[{}]", t))));
    }
}
