// Does a cancelled query timer ever fire later?  start_query_timer + cancel_timer back to back (what solve() does for a
// fast query), many times; then wait longer than the timeout and look at the stop flag.
use suiron::*;
use std::time::Duration;
fn main() {
    let rounds: usize = std::env::args().nth(1).and_then(|s| s.parse().ok()).unwrap_or(3000);
    let ms: u64 = 300;
    let mut leaked_rounds = 0;
    for r in 0..20 {
        for _ in 0..rounds {
            let t = start_query_timer(ms);
            cancel_timer(t);
        }
        start_query();                       // flag := false, as a new query would
        std::thread::sleep(Duration::from_millis(ms + 200));
        if query_stopped() { leaked_rounds += 1; println!("round {}: stop flag set although every timer was cancelled", r); }
    }
    println!("leaked in {} of 20 rounds ({} start/cancel pairs each)", leaked_rounds, rounds);
}
