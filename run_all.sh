#!/bin/sh
# Runs every claimed check against /repo (tier from $1, default quick), 6 at a time; prints one line each.
TIER=${1:-quick}
cd "$(dirname "$0")"
ids=$(python3 -c "import json;print(' '.join(c['property_id'] for c in json.load(open('MANIFEST.json'))['checks']))")
fail=0
echo $ids | tr ' ' '\n' | xargs -P 6 -I{} sh -c './check {} --tier '"$TIER"' > /tmp/verif_run_{}.log 2>&1; echo "{} exit=$? $(tail -1 /tmp/verif_run_{}.log)"' | sort
