#!/usr/bin/env python3
"""Behaviour-preserving edits: every check must stay silent on each of them (false-alarm guard)."""
import difflib, os, json
REPO = "/repo"
OUT = os.path.join(os.path.dirname(os.path.abspath(__file__)), "equivalents")
E = []
def e(name, edits):
    E.append((name, edits))

e("inline-flag-helper", [("src/solution_node.rs", "    if no_backtracking(&sn) { return None; }\n", "    if sn.borrow().no_backtracking { return None; }\n")])
e("or-if-instead-of-match", [("src/solution_node_and_or.rs",
   "    match solution {\n        None => {\n            match &sn_ref.operator_tail {\n                None => { return solution; },\n                Some(tail) => {\n                    if tail.len() == 0 { return solution; }\n                },\n            }\n        },\n        Some(_) => { return solution; },\n    }\n",
   "    if solution.is_some() { return solution; }\n    match &sn_ref.operator_tail {\n        None => { return solution; },\n        Some(tail) => {\n            if tail.len() == 0 { return solution; }\n        },\n    }\n")])
e("cmp-as-operator", [("src/built_in_comparison.rs",
   "            (Atom(s1), Atom(s2)) => {\n                if s1.cmp(&s2) == Ordering::Less {\n                    return Some(Rc::clone(&ss));\n                }\n            },\n            (SInteger(i1), SInteger(i2)) => {\n                if i1.cmp(&i2) == Ordering::Less {",
   "            (Atom(s1), Atom(s2)) => {\n                if s1 < s2 {\n                    return Some(Rc::clone(&ss));\n                }\n            },\n            (SInteger(i1), SInteger(i2)) => {\n                if i1 < i2 {")])
e("rename-locals-parse-arguments", [("src/parse_terms.rs", "length_chrs", "n_chars")])
e("rename-locals-unify", [("src/unifiable.rs", "length_src", "old_len"), ("src/unifiable.rs", "length_dst", "new_len")])
e("relaxed-atomics", [("src/time_out.rs", "Ordering::SeqCst", "Ordering::Relaxed")])
e("unify-arms-reordered", [("src/unifiable.rs",
   "                match other {\n                    Unifiable::SFloat(other_float) => {\n                        if self_float == other_float { return Some(Rc::clone(ss)); }\n                        None\n                    },\n                    Unifiable::LogicVar{id: _, name: _} => { other.unify(&self, ss) },\n                    Unifiable::Anonymous => { return Some(Rc::clone(ss)); },\n                    _ => None,\n                }",
   "                match other {\n                    Unifiable::Anonymous => { return Some(Rc::clone(ss)); },\n                    Unifiable::LogicVar{id: _, name: _} => { other.unify(&self, ss) },\n                    Unifiable::SFloat(other_float) => {\n                        if *self_float != *other_float { return None; }\n                        Some(Rc::clone(ss))\n                    },\n                    _ => None,\n                }")])
e("not-arm-if-let", [("src/solution_node.rs",
   "                            match solution {\n                                Some(_) => return None,\n                                None => {\n                                    return Some(Rc::clone(&sn_ref.ss));\n                                },\n                            }",
   "                            if solution.is_some() { return None; }\n                            return Some(Rc::clone(&sn_ref.ss));")])
e("solve-all-while-loop", [("src/solutions.rs",
   "        let solution = next_solution(Rc::clone(&sn));\n        if query_stopped() { break; }\n\n        match solution {\n            Some(ss) => {\n                let result = query.replace_variables(&ss);\n                let s = format_solution(&query, &result);\n                results.push(s);\n            },\n            None => { break; }\n        } // match solution",
   "        let solution = next_solution(Rc::clone(&sn));\n        if query_stopped() { break; }\n\n        let ss = match solution { Some(ss) => ss, None => { break; } };\n        let result = query.replace_variables(&ss);\n        results.push(format_solution(&query, &result));")])
e("print-builtin-helper", [("src/built_in_predicates.rs",
   "        \"nl\" => { // New Line. This cannot fail.\n            print!(\"\\n\");\n            return Some(Rc::clone(&sn_ref.ss));\n        },",
   "        \"nl\" => { // New Line. This cannot fail.\n            println!();\n            return Some(Rc::clone(&sn_ref.ss));\n        },")])
e("tokenizer-rename", [("src/tokenizer.rs", "start_index", "from")])
e("clause-loop-guard-after-index-test", [("src/solution_node.rs",
   "                if sn_ref.no_backtracking { return None; }\n\n                if sn_ref.rule_index >= sn_ref.number_facts_rules { return None; }",
   "                if sn_ref.rule_index >= sn_ref.number_facts_rules { return None; }\n                if sn_ref.no_backtracking { return None; }")])

e("add-uses-sum", [("src/built_in_arithmetic.rs", "        let sum = i.iter().fold(0, |mut sum, &x| {sum += x; sum});", "        let sum: i64 = i.iter().sum();")])
e("renamer-uses-map-collect", [("src/unifiable.rs",
   "            Unifiable::SComplex(terms) => {\n                let mut new_terms = vec![];\n                for term in terms {\n                    let term = term.recreate_variables(recreated_vars);\n                    new_terms.push(term);\n                }\n                Unifiable::SComplex(new_terms)\n            },",
   "            Unifiable::SComplex(terms) => {\n                Unifiable::SComplex(recreate_vars_terms(terms, recreated_vars))\n            },")])
e("solve-reordered", [("src/solutions.rs",
   "            let query = sn.borrow().goal.clone();\n            let result = query.replace_variables(&ss);\n            return format_solution(&query, &result);",
   "            let query = Rc::clone(&sn.borrow().goal);\n            let result = query.replace_variables(&ss);\n            let text = format_solution(&query, &result);\n            return text;")])
e("make-query-resets-separately", [("src/s_complex.rs", "    start_query();  // Reset LOGIC_VAR_ID and SUIRON_STOP_QUERY.", "    crate::time_out::start_query();")])

def main():
    idx = []
    for name, edits in E:
        files = {}
        for f, old, new in edits:
            src = files.get(f) or open(os.path.join(REPO, f)).read()
            if old not in src:
                print("!! %s: pattern not found in %s" % (name, f)); break
            files[f] = src.replace(old, new)
        else:
            diff = ""
            for f, new in files.items():
                src = open(os.path.join(REPO, f)).read()
                diff += "".join(difflib.unified_diff(src.splitlines(True), new.splitlines(True), "a/" + f, "b/" + f))
            os.makedirs(OUT, exist_ok=True)
            open(os.path.join(OUT, name + ".patch"), "w").write(diff)
            idx.append(name)
    print(len(idx), "equivalent edits")
main()
