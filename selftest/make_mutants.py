#!/usr/bin/env python3
"""Generates selftest/mutants/<prop>/<name>.patch from the replacement table below
(run by hand when /repo changes; the check only *applies* the patches)."""
import difflib, os, sys, json
REPO = "/repo"
OUT = os.path.join(os.path.dirname(os.path.abspath(__file__)), "mutants")

M = []
def m(props, name, file, old, new, expect=None, count=1):
    M.append(dict(props=props, name=name, file=file, old=old, new=new, expect=expect, count=count))

# ---------------- list builders (C15) and the list arm of the renamer (C10) ----------------
m(["C15"], "append-through-splicing-constructor", "src/built_in_append.rs", "        let out = make_list_of_elements(out_terms);", "        let out = make_linked_list(false, out_terms);", "R2/splice")
m(["C15"], "filter-through-splicing-constructor", "src/s_linked_list.rs", "        let new_list = make_list_of_elements(filtered_terms);", "        let new_list = make_linked_list(false, filtered_terms);", "R2/splice")
m(["C15"], "elements-builder-count-from-zero", "src/s_linked_list.rs", "    let mut num = 1;\n    for term in terms.into_iter().rev() {", "    let mut num = 0;\n    for term in terms.into_iter().rev() {", "R3/nodes")
m(["C15"], "elements-builder-not-reversed", "src/s_linked_list.rs", "    for term in terms.into_iter().rev() {", "    for term in terms.into_iter() {", "R4/order")
m(["C15"], "elements-builder-splices", "src/s_linked_list.rs",
  "    for term in terms.into_iter().rev() {\n        list = cons_node!(term, list, num, false);",
  "    for term in terms.into_iter().rev() {\n        if num == 1 { if let SLinkedList{term: _, next: _, count: c, tail_var: _} = term { if c > 0 { num = c + 1; list = term; continue; } } }\n        list = cons_node!(term, list, num, false);", "R2/splice")
m(["C15"], "link-front-count-not-incremented", "src/s_linked_list.rs", "        cons_node!(new_term, list, count + 1, tail)", "        cons_node!(new_term, list, count, tail)", "R3/nodes")
m(["C15"], "constructor-count-skips", "src/s_linked_list.rs", "        tail = cons_node!(node, tail, num, tail_var);\n        num += 1;", "        tail = cons_node!(node, tail, num, tail_var);\n        num += 2;", "R3/nodes")
m(["C15"], "constructor-flag-not-cleared", "src/s_linked_list.rs", "        tail = cons_node!(node, tail, num, tail_var);\n        num += 1;\n\n        tail_var = false;", "        tail = cons_node!(node, tail, num, tail_var);\n        num += 1;\n", "R5/tail-flag")
m(["C15"], "constructor-spliced-count-lost", "src/s_linked_list.rs", "                    tail = cons_node!(*t, *n, c, tf);\n                    num = c + 1;", "                    tail = cons_node!(*t, *n, c, tf);\n                    num = c;", "R3/nodes")
m(["C10"], "list-term-not-renamed", "src/unifiable.rs", "                    **term = t.recreate_variables(recreated_vars);", "                    **term = t;", "R4/term(SLinkedList)")
m(["C10"], "list-term-renamed-under-fresh-map", "src/unifiable.rs", "                    **term = t.recreate_variables(recreated_vars);", "                    **term = t.recreate_variables(&mut VarMap::new());", "R4/term(SLinkedList)")
m(["C10"], "list-walk-stops-at-count-one", "src/unifiable.rs",
  "                while let Unifiable::SLinkedList{term, next,\n                                     count: _, tail_var: _} = node {\n                    let t",
  "                while let Unifiable::SLinkedList{term, next,\n                                     count, tail_var: _} = node {\n                    if *count <= 1 { break; }\n                    let t", "R4/term(SLinkedList)")
m(["C10"], "list-walk-skips-first-node", "src/unifiable.rs",
  "                let mut node = &mut new_list;\n                while let",
  "                let mut node = &mut new_list;\n                if let Unifiable::SLinkedList{term: _, next, count: _, tail_var: _} = node { node = &mut **next; }\n                while let", "R4/term(SLinkedList)")

# ---------------- append (C16) and count / include / exclude (C17) ----------------
m(["C16"], "append-adds-list-whole", "src/built_in_append.rs", "                    out_terms.append(&mut get_terms(&t, ss));", "                    out_terms.push(t);", "R1")
m(["C16"], "append-skips-first-argument", "src/built_in_append.rs", "        for i in 0..(length - 1) {", "        for i in 1..(length - 1) {", "R2")
m(["C16"], "append-walks-every-argument", "src/built_in_append.rs", "        for i in 0..(length - 1) {", "        for i in 0..length {", "R2")
m(["C16"], "append-unifies-with-first-argument", "src/built_in_append.rs", "        let last_term = terms[length - 1].clone();", "        let last_term = terms[0].clone();", "R2")
m(["C16"], "append-walk-of-first-argument", "src/built_in_append.rs", "                    out_terms.append(&mut get_terms(&t, ss));", "                    out_terms.append(&mut get_terms(&terms[0], ss));", "R2")
m(["C16"], "append-unifies-on-fresh-set", "src/built_in_append.rs", "        return last_term.unify(&out, &ss);", "        return last_term.unify(&out, &Rc::new(ss.iter().cloned().map(|_| None).collect()));", "R3")
m(["C16"], "append-returns-set-unchanged", "src/built_in_append.rs", "        return last_term.unify(&out, &ss);", "        let _ = (last_term, out);\n        return Some(Rc::clone(ss));", "R3")
m(["C17"], "filter-polarity-swapped", "src/s_linked_list.rs", "            if include {  // Include terms which match.", "            if !include {  // Include terms which match.", "R3/polarity")
m(["C17"], "filter-tests-element-against-itself", "src/s_linked_list.rs", "            if include {  // Include terms which match.\n                if pass_filter(filter, head, ss) {", "            if include {  // Include terms which match.\n                if pass_filter(head, head, ss) {", "R3/polarity")
m(["C17"], "filter-keeps-the-filter-term", "src/s_linked_list.rs", "                if pass_filter(filter, head, ss) == false {\n                    filtered_terms.push(head.clone());", "                if pass_filter(filter, head, ss) == false {\n                    filtered_terms.push(filter.clone());", "R3/polarity")
m(["C17"], "exclude-asks-to-include", "src/built_in_filter.rs", "        let filtered_list = filter(&terms[0], &terms[1], ss, false)?;", "        let filtered_list = filter(&terms[0], &terms[1], ss, true)?;", "R3/exclude-wiring")
m(["C17"], "include-unifies-with-input", "src/built_in_filter.rs", "        let filtered_list = filter(&terms[0], &terms[1], ss, true)?;\n        let out = &terms[2];", "        let filtered_list = filter(&terms[0], &terms[1], ss, true)?;\n        let out = &terms[1];", "R3/include-wiring")
m(["C17"], "count-counts-second-argument", "src/built_in_count.rs", "        let count = count_terms(&terms[0], &Rc::clone(&ss));", "        let count = count_terms(&terms[1], &Rc::clone(&ss));", "R2/count-wiring")
m(["C17"], "count-stops-at-tail-variable", "src/s_linked_list.rs",
  "        while *head != Unifiable::Nil {\n            count += 1;\n            match get_list_data(slist) {\n                Some((t, n, tv)) => {\n                    head = t;\n                    slist = n;\n                    if tv && *head != Unifiable::Anonymous {",
  "        while *head != Unifiable::Nil {\n            count += 1;\n            match get_list_data(slist) {\n                Some((t, n, _tv)) => {\n                    head = t;\n                    slist = n;\n                    if false {", "R1/follows-tail")
m(["C17", "C16"], "get-terms-ignores-bound-tail", "src/s_linked_list.rs",
  "                                if let SLinkedList{term, next,\n                                    count: _, tail_var: _} = list {\n                                    head = term;\n                                    slist = next;\n                                }",
  "                                let _ = list;", "R1/follows-tail")

# ---------------- classification of a term's text (C20) ----------------
m(["C20"], "term-sign-is-non-digit-again", "src/parse_terms.rs",
  "        } else if i == 0 && (*ch == '+' || *ch == '-') {\n            // Plus or minus in front of a number is part of the number: +7, -3.8\n            let mut next_ch = 'x';\n            if chrs.len() > 1 { next_ch = chrs[1]; }\n            if next_ch < '0' || next_ch > '9' { has_non_digit = true; }\n        } else if *ch > ' ' {",
  "        } else if *ch > ' ' {", "R2/agree")
m(["C20"], "term-blank-is-non-digit-again", "src/parse_terms.rs", "        } else if *ch > ' ' {\n            has_non_digit = true;\n        }\n    }\n\n    // Check for escaped characters",
  "        } else {\n            has_non_digit = true;\n        }\n    }\n\n    // Check for escaped characters", "R2/agree")
m(["C20"], "argument-period-is-non-digit", "src/parse_terms.rs", "                else if ch == '.' {\n                    argument.push(ch);\n                    has_period = true\n                }",
  "                else if ch == '.' {\n                    argument.push(ch);\n                    has_period = true;\n                    has_non_digit = true\n                }", "R2/agree")
m(["C20"], "term-digits-converted-early", "src/parse_terms.rs", "    // Check for escaped characters, eg: \\,\n    if chrs.len() == 2 && chrs[0] == '\\\\' { s = &s[1..]; }",
  "    if let Ok(n) = s.parse::<i64>() { return Ok(SInteger(n)); }\n\n    // Check for escaped characters, eg: \\,\n    if chrs.len() == 2 && chrs[0] == '\\\\' { s = &s[1..]; }", "R3")

# ---------------- file loader (C21) ----------------
m(["C21"], "unreadable-line-skipped-again", "src/rule_reader.rs",
  "                    Err(err) => {\n                        // A line which cannot be read (eg. invalid UTF-8)\n                        // must not be left out silently.\n                        let msg = format!(\"Cannot read line {}: {}: {}\",\n                                          line_number, err, file_name);\n                        return Err(msg);\n                    },",
  "                    Err(_) => {},", "R1")
m(["C21"], "rule-that-does-not-parse-skipped", "src/rule_reader.rs",
  "            Err(msg) => {\n                let error_message = load_parse_error(msg, previous);\n                return Some(error_message); \n            },",
  "            Err(msg) => {\n                let _ = load_parse_error(msg, previous.clone());\n            },", "R1")
m(["C21"], "line-end-check-ignored", "src/rule_reader.rs", "                                Some(msg) => { return Err(msg); },\n                                None => { long_line += &line; },",
  "                                Some(_msg) => { long_line += &line; },\n                                None => { long_line += &line; },", "R1")
m(["C21"], "rules-loaded-last-to-first", "src/rule_reader.rs", "    for rule_str in rules {\n        match parse_rule(&rule_str) {", "    for rule_str in rules.into_iter().rev() {\n        match parse_rule(&rule_str) {", "R2")
m(["C21"], "line-appended-twice", "src/rule_reader.rs", "                                None => { long_line += &line; },", "                                None => { long_line += &line; if line_number == 1 { long_line += &line; } },", "R3")
m(["C21"], "parsed-rule-not-added", "src/rule_reader.rs", "                previous = rule_str;\n                add_rules!(kb, rule);", "                previous = rule_str;\n                if kb.len() < 100000 { add_rules!(kb, rule); }", None)
m(["C21"], "leftover-text-dropped-again", "src/rule_reader.rs", "    if rule_str.trim().len() > 0 {\n        let msg = format!(\"Missing period at end of: {}\", rule_str.trim());\n        return Err(msg);\n    }\n", "", "R4")
m(["C20"], "term-classified-before-trimming", "src/parse_terms.rs", "    let chrs = str_to_chars!(&s);\n\n    // First, let's check for an arithmetic function", "    let chrs = str_to_chars!(to_parse);\n\n    // First, let's check for an arithmetic function", "R4")

# ---------------- solver (C01-C05) ----------------
m(["C01"], "or-tail-from-head-set", "src/solution_node_and_or.rs",
  "            let ss = Rc::clone(&sn_ref.ss);\n            let tail_sn = make_solution_node(Rc::new(tail_goal),\n                                             sn_ref.kb, ss,",
  "            let ss = match &sn_ref.head_sn { Some(h) => Rc::clone(&h.borrow().ss), None => Rc::clone(&sn_ref.ss) };\n            let tail_sn = make_solution_node(Rc::new(tail_goal),\n                                             sn_ref.kb, ss,", "R2/or-tail")
m(["C01"], "and-tail-from-node-set", "src/solution_node_and_or.rs",
  "                        let tail_sn = make_solution_node(Rc::new(tail_goal),\n                                                         sn_ref.kb, ss,",
  "                        let _ = &ss;\n                        let tail_sn = make_solution_node(Rc::new(tail_goal),\n                                                         sn_ref.kb, Rc::clone(&sn_ref.ss),", "R2/and-tail")
m(["C01", "C05"], "rule-index-plus-two", "src/solution_node.rs", "                sn_ref.rule_index += 1;", "                sn_ref.rule_index += 2;", "R3/one-increment-per-fetch")
m(["C01"], "and-drops-tail-resume", "src/solution_node_and_or.rs",
  "    if let Some(tail_sn) = &sn_ref.tail_sn {\n        if let Some(ss) = next_solution(Rc::clone(&tail_sn)) {\n            return Some(ss);\n        }\n    }\n\n    let mut solution",
  "    let mut solution", "R5/resume(and)")
m(["C01"], "complex-returns-own-set", "src/solution_node.rs",
  "                        if child_solution.is_some() { return child_solution; }",
  "                        if child_solution.is_some() { return Some(Rc::clone(&sn_ref.ss)); }", "R6/answer-source(complex)")
m(["C01"], "binder-make-mut", "src/unifiable.rs",
  "                new_ss[id] = Some(Rc::new(other.clone()));\n                return Some(Rc::new(new_ss));",
  "                new_ss[id] = Some(Rc::new(other.clone()));\n                let mut shared = Rc::clone(ss);\n                if id < length_src { Rc::make_mut(&mut shared)[id] = Some(Rc::new(other.clone())); return Some(shared); }\n                return Some(Rc::new(new_ss));", "R1/no-rc-escape")
m(["C01"], "clause-count-wrong-key", "src/goal.rs",
  "            node.number_facts_rules = count_rules(kb, &cmplx.key());\n            return rc_cell!(node);",
  "            node.number_facts_rules = count_rules(kb, &cmplx.key()).saturating_sub(0).max(1);\n            return rc_cell!(node);", "R7/clause-count(make_solution_node)")
m(["C02"], "entry-guard-removed", "src/solution_node.rs", "    if no_backtracking(&sn) { return None; }\n", "    let _ = no_backtracking(&sn);\n", "R1/entry-guard")
m(["C02", "C24"], "head-not-marked", "src/solution_node.rs",
  "                            if !std::ptr::eq(raw_ptr2, self as *const Self) {\n                                (*raw_ptr2).no_backtracking = true;\n                            }",
  "                            if !std::ptr::eq(raw_ptr2, self as *const Self) {\n                                let _ = raw_ptr2;\n                            }", "R3/propagation")
m(["C02"], "setter-stops-after-first-parent", "src/solution_node.rs",
  "                        option_parent = &(*raw_ptr).parent_node;\n                    }",
  "                        option_parent = &(*raw_ptr).parent_node;\n                        if (*raw_ptr).head_sn.is_none() { return; }\n                    }", "R3/propagation")
m(["C02"], "complex-node-gets-parent", "src/goal.rs", "            node.ss = ss;\n            node.parent_node = None;", "            node.ss = ss;\n            node.parent_node = Some(parent_node);", "R4/complex-node-has-no-parent")
m(["C02"], "clause-loop-guard-removed", "src/solution_node.rs",
  "                if sn_ref.no_backtracking { return None; }\n\n                if sn_ref.rule_index", "                if sn_ref.rule_index", "R5/clause-loop")
m(["C02"], "or-guard-removed", "src/solution_node_and_or.rs", "    if sn_ref.no_backtracking { return None; }\n\n    match &sn_ref.operator_tail {\n        None => { return None; },", "    match &sn_ref.operator_tail {\n        None => { return None; },", "R5/or-tail")
m(["C02"], "cut-cell-skips-setter-when-no-parent", "src/built_in_predicates.rs",
  "            sn_ref.set_no_backtracking();\n            return Some(Rc::clone(&sn_ref.ss));",
  "            if sn_ref.parent_node.is_some() { sn_ref.set_no_backtracking(); }\n            return Some(Rc::clone(&sn_ref.ss));", "R2/cut-cell")
m(["C03"], "not-arms-swapped", "src/solution_node.rs",
  "                                Some(_) => return None,\n                                None => {\n                                    return Some(Rc::clone(&sn_ref.ss));\n                                },",
  "                                None => return None,\n                                Some(_) => {\n                                    return Some(Rc::clone(&sn_ref.ss));\n                                },", "R1/not-table")
m(["C03"], "not-returns-child-set", "src/solution_node.rs",
  "                            match solution {\n                                Some(_) => return None,\n                                None => {\n                                    return Some(Rc::clone(&sn_ref.ss));",
  "                            match solution {\n                                Some(_) => return None,\n                                None => {\n                                    return Some(Rc::clone(&head_sn.borrow().ss));", "R2/not-result-set")
m(["C05"], "not-flag-cleared-late", "src/solution_node.rs",
  "                    if !sn_ref.more_solutions { return None; };\n                    sn_ref.more_solutions = false;\n\n                    match &sn_ref.head_sn {\n                        Some(head_sn) => {\n                            let solution = next_solution(Rc::clone(&head_sn));\n                            match solution {\n                                Some(_) => return None,\n                                None => {",
  "                    if !sn_ref.more_solutions { return None; };\n\n                    match &sn_ref.head_sn {\n                        Some(head_sn) => {\n                            let solution = next_solution(Rc::clone(&head_sn));\n                            match solution {\n                                Some(_) => return None,\n                                None => {\n                                    sn_ref.more_solutions = false;", "R5/none-is-final(entry)")
m(["C03"], "not-node-empty-set", "src/goal.rs",
  "                Operator::Time(goals) | Operator::Not(goals) => {\n\n                    node.ss = Rc::clone(&ss);",
  "                Operator::Time(goals) | Operator::Not(goals) => {\n\n                    if let Operator::Time(_) = op { node.ss = Rc::clone(&ss); }", "R4/not-construction")
m(["C04"], "and-prints-set", "src/solution_node_and_or.rs", "                // print_ss(&ss); // For debugging.", "                print_ss(&ss); // For debugging.", "R1/printer")
m(["C04", "C05"], "bip-flag-not-cleared", "src/built_in_predicates.rs", "    if !sn_ref.more_solutions { return None; };\n    sn_ref.more_solutions = false;\n", "    if !sn_ref.more_solutions { return None; };\n    if bip.functor != \"nl\" { sn_ref.more_solutions = false; }\n", "once(nl)")
m(["C04"], "print-ignores-bindings", "src/built_in_print.rs",
  "                Some(ground_term) => { v.push(format!(\"{}\", ground_term)); },", "                Some(_ground_term) => { v.push(format!(\"{}\", term)); },", "R4/print-renders-bound-values")
m(["C05"], "child-not-dropped", "src/solution_node.rs", "            sn_ref.child = None;\n            loop {", "            loop {", "R2/child-dropped")
m(["C05"], "rule-index-reset", "src/solution_node.rs",
  "                if sn_ref.rule_index >= sn_ref.number_facts_rules { return None; }",
  "                if sn_ref.rule_index >= sn_ref.number_facts_rules { sn_ref.rule_index = 0; return None; }", "R3/field(rule_index)")
m(["C01"], "answer-text-wrong-position", "src/solutions.rs", "                            out += &format!(\", {} = {}\", name, r_terms[i]);", "                            out += &format!(\", {} = {}\", name, r_terms[r_terms.len() - 1]);", "R8/answer-text-positions")
m(["C23"], "timeout-message-unconditional", "src/solutions.rs", "    cancel_timer(timer);\n    if query_stopped() {\n        let s = format!(\"Query timed out after {} milliseconds.\", S_TIMEOUT);\n        results.push(s);\n    }", "    cancel_timer(timer);\n    if query_stopped() || results.len() > 64 {\n        let s = format!(\"Query timed out after {} milliseconds.\", S_TIMEOUT);\n        results.push(s);\n    }", "R3/timeout-message-only-when-stopped(solve_all)")
# ---------------- unify (C06-C09, C13) ----------------
m(["C06"], "int-diag-ne", "src/unifiable.rs", "                        if self_int == other_int { return Some(Rc::clone(ss)); }", "                        if self_int != other_int { return Some(Rc::clone(ss)); }", "R1/diag(SInteger)")
m(["C06", "C07"], "atom-int-succeeds", "src/unifiable.rs",
  "                    Unifiable::LogicVar{id: _, name: _} => { other.unify(&self, ss) },\n                    Unifiable::Anonymous => { return Some(Rc::clone(ss)); },\n                    _ => None,\n                }\n            },\n            Unifiable::SFloat(self_float) => {",
  "                    Unifiable::LogicVar{id: _, name: _} => { other.unify(&self, ss) },\n                    Unifiable::Anonymous => { return Some(Rc::clone(ss)); },\n                    Unifiable::SInteger(_) => { return Some(Rc::clone(ss)); },\n                    _ => None,\n                }\n            },\n            Unifiable::SFloat(self_float) => {", "R1/off(Atom,SInteger)")
m(["C06"], "copy-loop-skips-first", "src/unifiable.rs", "                for (i, item) in ss.iter().enumerate() {", "                for (i, item) in ss.iter().enumerate().skip(1) {", "R3/bind-copy")
m(["C06"], "bind-length-off-by-one", "src/unifiable.rs", "                if id >= length_dst { length_dst = id + 1; }", "                if id > length_dst { length_dst = id + 1; }", "R3/bind-len")
m(["C06"], "bind-at-wrong-index", "src/unifiable.rs", "                new_ss[id] = Some(Rc::new(other.clone()));", "                new_ss[length_dst - 1] = Some(Rc::new(other.clone()));", "R3/bind-one_store")
m(["C06"], "complex-loop-forgets-set", "src/unifiable.rs", "                            if let Some(ss) = left.unify(&right, new_ss) {", "                            if let Some(ss) = left.unify(&right, ss) {", "R4/thread(SComplex)")
m(["C07", "C09"], "anon-return-dropped", "src/unifiable.rs", "        if Unifiable::Anonymous == *other { return Some(Rc::clone(ss)); }", "        if Unifiable::Anonymous == *other { Some(Rc::clone(ss)); }", "R1")
m(["C07"], "list-arm-asymmetric", "src/unifiable.rs",
  "                                    else if *other_tail_var {\n                                         return other_term.unify(&this_list, new_ss);",
  "                                    else if *other_tail_var {\n                                         return other_term.unify(&this_term, new_ss);", "R2/list-arm-mirror")
m(["C08"], "cycle-check-removed", "src/unifiable.rs", "                    if *other_id == id { return Some(Rc::clone(ss)); }\n                    if *other_id >= length_src { break; }", "                    if *other_id >= length_src || *other_id == id { break; }", "R1/var-var-bind", )
m(["C09"], "complex-skip-becomes-fail", "src/unifiable.rs",
  "                            if *right == Unifiable::Anonymous {\n                                i += 1;\n                                continue;\n                            }",
  "                            if *right == Unifiable::Anonymous {\n                                if let Unifiable::SFunction{..} = left { return None; }\n                                i += 1;\n                                continue;\n                            }", "R2/elements(SComplex)")
m(["C13", "C07"], "forward-not-for-atoms", "src/unifiable.rs",
  "                Unifiable::SFunction{name: _, terms: _} |\n                Unifiable::Anonymous => {},",
  "                Unifiable::SFunction{name: _, terms: _} |\n                Unifiable::Atom(_) |\n                Unifiable::Anonymous => {},", "R2/cell(Atom,SFunction)")
m(["C13", "C12"], "sfunction-unifies-with-self-set", "src/built_in_functions.rs",
  "    else if name.eq(\"add\") {\n        let result = evaluate_add(terms, ss);\n        return result.unify(other, ss);",
  "    else if name.eq(\"add\") {\n        let result = evaluate_add(terms, ss);\n        if result == *other { return Some(Rc::clone(ss)); } else if let Unifiable::LogicVar{..} = other { return result.unify(other, ss); } else { return None; }", "R4")
# ---------------- renaming (C10, C11) ----------------
m(["C10", "C11"], "insert-dropped", "src/unifiable.rs", "                    recreated_vars.insert(name.clone(), next_id);\n", "                    let _ = &recreated_vars;\n", "variable-arm")
m(["C10", "C11"], "body-gets-fresh-map", "src/rule.rs",
  "            Goal::ComplexGoal(comp) => {\n                new_body = Goal::ComplexGoal(comp.recreate_variables(recreated_vars));",
  "            Goal::ComplexGoal(comp) => {\n                new_body = Goal::ComplexGoal(comp.recreate_variables(&mut VarMap::new()));", "rule-shares-map")
m(["C10"], "restore-on-success", "src/solution_node.rs",
  "                    Some(ss) => {\n                        let body = rule.get_body();\n                        if body == Goal::Nil { return Some(ss); }",
  "                    Some(ss) => {\n                        let body = rule.get_body();\n                        if body == Goal::Nil { set_var_id(fallback_id); return Some(ss); }", "R3/restore-only-after-failed-head")
m(["C10"], "sfunction-renamed-to-add", "src/unifiable.rs", "                return Unifiable::SFunction{name, terms: new_terms};", "                return Unifiable::SFunction{name: if new_terms.len() > 4 { \"add\".to_string() } else { name }, terms: new_terms};", "R4/term(SFunction)")
m(["C11"], "binding-indexed-by-name-length", "src/unifiable.rs",
  "            Unifiable::LogicVar{id, name} => {\n                let ss_length = ss.len();\n                // If variable is bound.\n                if *id < ss_length && ss[*id] != None {",
  "            Unifiable::LogicVar{id, name} => {\n                let ss_length = ss.len();\n                let id = &(if name.len() > 40 { name.len() } else { *id });\n                // If variable is bound.\n                if *id < ss_length && ss[*id] != None {", "R2/bindings-indexed-by-id")
# ---------------- arithmetic / comparison (C12, C14) ----------------
m(["C12"], "multiply-starts-at-zero", "src/built_in_arithmetic.rs", "        let result = i.iter().fold(1, |mut result, &x| {result *= x; result});", "        let result = i.iter().fold(0, |mut result, &x| {result *= x; result});", "R1/multiply/int")
m(["C12"], "subtract-operands-swapped", "src/built_in_arithmetic.rs", "        let result = f.iter().fold(first, |mut result, &x| {result -= x; result});", "        let result = f.iter().fold(first, |result, &x| { x - result });", "R1/subtract/float")
m(["C12"], "float-flag-never-set", "src/built_in_arithmetic.rs", "                        has_float = true;\n", "", "R1/float-flag")
m(["C12"], "plus-parses-to-subtract", "src/parse_terms.rs", "            Infix::Plus     => { sfunction!(\"add\", left, right) },", "            Infix::Plus     => { sfunction!(\"subtract\", left, right) },", "R2/chain(+)")
m(["C14"], "lt-becomes-le-in-float-arm", "src/built_in_comparison.rs",
  "            (SFloat(f1), SFloat(f2)) => {\n                if f1 < f2 { return Some(Rc::clone(&ss)); }", "            (SFloat(f1), SFloat(f2)) => {\n                if f1 <= f2 { return Some(Rc::clone(&ss)); }", "R1/less_than(SFloat,SFloat)")
m(["C14"], "ordering-less-greater", "src/built_in_comparison.rs",
  "            (SInteger(i1), SInteger(i2)) => {\n                if i1.cmp(&i2) == Ordering::Less {", "            (SInteger(i1), SInteger(i2)) => {\n                if i2.cmp(&i1) == Ordering::Less {", "R1/less_than(SInteger,SInteger)")
m(["C14"], "operands-swapped", "src/built_in_comparison.rs", "    let left = match get_constant(&terms[0], ss) {", "    let left = match get_constant(&terms[terms.len() - 1], ss) {", "R3/operands-in-order")
m(["C14"], "ge-symbol-maps-to-gt", "src/parse_goals.rs", "            Infix::GreaterThanOrEqual => { pred!(\"greater_than_or_equal\", left, right) },", "            Infix::GreaterThanOrEqual => { pred!(\"greater_than\", left, right) },", "R4/chain(>=)")
m(["C14"], "infix-operands-swapped", "src/parse_goals.rs", "            Infix::LessThan           => { pred!(\"less_than\", left, right) },", "            Infix::LessThan           => { pred!(\"less_than\", right, left) },", "R4/operands(less_than)")
m(["C12"], "infix-minus-operands-swapped", "src/parse_terms.rs", "            Infix::Minus    => { sfunction!(\"subtract\", left, right) },", "            Infix::Minus    => { sfunction!(\"subtract\", right, left) },", "R2/operands(subtract)")
m(["C14", "C12"], "split-returns-right-left", "src/parse_goals.rs", "    return Ok((term1, term2));", "    return Ok((term2, term1));", "R4/left-right-split")
# ---------------- goal tokenizer (C19) ----------------
m(["C19"], "or-arm-drops-conjunctions-again", "src/tokenizer.rs", "                    else if child_type == TokenType::Group ||\n                            child_type == TokenType::And {", "                    else if child_type == TokenType::Group {", "R1/kinds(Or)")
m(["C19"], "and-arm-ignores-groups", "src/tokenizer.rs", "                    else if child_type == TokenType::Group {\n                        match token_tree_to_goal(child) {\n                            Ok(g) => { operands.push(g); },\n                            Err(err) => { return Err(err); },\n                        }\n                    }\n                } // for child...\n\n                let op = Operator::And(operands);", "                    else if child_type == TokenType::LParen {\n                        match token_tree_to_goal(child) {\n                            Ok(g) => { operands.push(g); },\n                            Err(err) => { return Err(err); },\n                        }\n                    }\n                } // for child...\n\n                let op = Operator::And(operands);", "R1/kinds(And)")
m(["C19"], "or-grouper-keeps-semicolons", "src/tokenizer.rs", "                   child_type == TokenType::And ||\n                   child_type == TokenType::Group {\n                    or_list.push(child);", "                   child_type == TokenType::And ||\n                   child_type == TokenType::Semicolon ||\n                   child_type == TokenType::Group {\n                    or_list.push(child);", "R1/kinds(Or)")
m(["C19"], "infix-display-differs-from-scanner", "src/infix.rs", "            Infix::LessThanOrEqual => write!(f, \"<=\"),", "            Infix::LessThanOrEqual => write!(f, \"=<\"),", "R2/symbol(LessThanOrEqual)")
# ---------------- parsers (C18) ----------------
m(["C18"], "list-length-guard-removed", "src/s_linked_list.rs", "    if length_chars < 2 {", "    if length_chars < 1 {", "P4")
m(["C18"], "escape-off-by-one-again", "src/parse_terms.rs", "                    if i + 1 < length_chrs {\n                        i += 1;", "                    if i < length_chrs {\n                        i += 1;", "P3")
m(["C18"], "err-becomes-panic", "src/tokenizer.rs", "            if top == TokenType::Empty {\n                let msg = format!(\"tokenize() - Unmatched parenthesis: {}\", s);\n                return Err(msg);", "            if top == TokenType::Empty {\n                let msg = format!(\"tokenize() - Unmatched parenthesis: {}\", s);\n                panic!(\"{}\", msg);", "P1")
m(["C18"], "unwrap-on-parse", "src/s_linked_list.rs",
  "                    match parse_term(s2) {\n                        Ok(term) => {\n                            list = link_front(term, false, list);\n                            end_index = ind;\n                        },\n                        Err(err) => {\n                            return Err(err);\n                        }\n                    }",
  "                    list = link_front(parse_term(s2).unwrap(), false, list);\n                    end_index = ind;", "P2")
m(["C18"], "parentheses-order-not-tested", "src/parse_goals.rs", "    if right < left {\n        let s = chars_to_string!(goal);\n        return Err(iop_error(\"Invalid parentheses\", &s));\n    }\n", "", "P3")
m(["C18"], "parentheses-sentinel-returned", "src/parse_goals.rs", "    if left == -1 { return Ok(None); }\n    return Ok(Some((left as usize, right as usize)));", "    if left == -1 && right == -1 { return Ok(None); }\n    return Ok(Some((left as usize, right as usize)));", "P3")
m(["C18"], "neck-index-off-by-one", "src/rule.rs", "           if previous_colon == true { return Some(i - 1); }", "           if previous_colon == true { return Some(i); }", "P3")
m(["C18"], "list-end-index-raised", "src/s_linked_list.rs", "                            end_index = ind;", "                            end_index = ind + 2;", "P3")
m(["C18"], "tokenizer-start-skips-ahead", "src/tokenizer.rs", "                    tokens.push(make_leaf_token(\";\"));\n                    start_index = i + 1;\n", "                    tokens.push(make_leaf_token(\";\"));\n                    start_index = i + 2;\n", "P3")
m(["C18"], "loop-never-advances", "src/infix.rs", "        prev = c1;\n        i += 1;\n\n    } // while\n\n    return (Infix::None, 0);  // failed to find infix\n\n} // check_infix", "        prev = c1;\n        if c1 != '\\u{0}' { i += 1; }\n\n    } // while\n\n    return (Infix::None, 0);  // failed to find infix\n\n} // check_infix", "L")
# ---------------- globals / timer / unsafe (C22-C24) ----------------
m(["C22"], "constructor-keeps-flag", "src/s_complex.rs", "    start_query();  // Reset LOGIC_VAR_ID and SUIRON_STOP_QUERY.", "    clear_id();  // Reset LOGIC_VAR_ID.", "R2/reset(SUIRON_STOP_QUERY)")
m(["C22"], "static-cache-in-count-rules", "src/knowledge_base.rs",
  "pub fn count_rules(kb: &KnowledgeBase, predicate_name: &str) -> usize {\n\n    if query_stopped() { return 0; }\n",
  "static mut LAST_COUNT: usize = 0;\npub fn count_rules(kb: &KnowledgeBase, predicate_name: &str) -> usize {\n\n    if query_stopped() { return unsafe { LAST_COUNT }.min(0); }\n    unsafe { LAST_COUNT += 1; }\n", "R2/reset(LAST_COUNT)")
m(["C23"], "cancel-missing-on-timeout-path", "src/solutions.rs",
  "    let solution = next_solution(Rc::clone(&sn));\n    cancel_timer(timer);\n\n    if query_stopped() {",
  "    let solution = next_solution(Rc::clone(&sn));\n    if solution.is_some() { cancel_timer(timer); }\n\n    if query_stopped() {", "R1/pairing(solve)")
m(["C23"], "flag-read-before-search", "src/solutions.rs",
  "        let solution = next_solution(Rc::clone(&sn));\n        if query_stopped() { break; }",
  "        if query_stopped() { break; }\n        let solution = next_solution(Rc::clone(&sn));", "R3/guarded-report(solve_all)")
m(["C23"], "count-rules-ignores-flag", "src/knowledge_base.rs", "    if query_stopped() { return 0; }\n\n    match kb.get(predicate_name) {\n        Some(list) => { return list.len(); },", "    let stopped = query_stopped();\n\n    match kb.get(predicate_name) {\n        Some(list) => { return if stopped && list.len() > 64 { 0 } else { list.len() }; },", "R5/stopped-means-no-clauses")
m(["C24"], "get-unchecked-in-unify", "src/unifiable.rs", "                if id < length_src && ss[id] != None {\n                    if let Some(term) = &ss[id] {", "                if id < length_src && ss[id] != None {\n                    if let Some(term) = unsafe { ss.get_unchecked(id) } {", "R5/unaudited")
m(["C24"], "timer-closure-clears-id", "src/time_out.rs", "                        stop_query();\n                    }\n                }).unwrap();", "                        stop_query(); clear_id();\n                    }\n                }).unwrap();", "R2/race(LOGIC_VAR_ID)")
m(["C23", "C22"], "cancel-does-not-advance-timer-id", "src/time_out.rs", "    SUIRON_TIMER_ID.fetch_add(1, Ordering::SeqCst);\n    match timer.cancel() {", "    match timer.cancel() {", "R2/failed-cancel-harmless")
m(["C23", "C22"], "thunk-unconditional-again", "src/time_out.rs", "                    if SUIRON_TIMER_ID.load(Ordering::SeqCst) == timer_id {\n                        stop_query();\n                    }", "                    let _ = timer_id;\n                    stop_query();", "R2/failed-cancel-harmless")
m(["C23"], "thunk-fires-only-when-stale", "src/time_out.rs", "                    if SUIRON_TIMER_ID.load(Ordering::SeqCst) == timer_id {", "                    if SUIRON_TIMER_ID.load(Ordering::SeqCst) != timer_id {", "R2/timer-thunk-sets-flag")
m(["C23"], "timer-id-not-taken-at-start", "src/time_out.rs", "    let timer_id = SUIRON_TIMER_ID.fetch_add(1, Ordering::SeqCst).wrapping_add(1);", "    let timer_id = SUIRON_TIMER_ID.load(Ordering::SeqCst);", "R2/timer-thunk-sets-flag")
m(["C24"], "self-guard-removed", "src/solution_node.rs",
  "                            if !std::ptr::eq(raw_ptr2, self as *const Self) {\n                                (*raw_ptr2).no_backtracking = true;\n                            }",
  "                            (*raw_ptr2).no_backtracking = true;", "R3a/raw-write(via-head_sn)")
m(["C22"], "leaked-depth-guard-on-feature", "src/solution_node.rs", None, None, "R2/reset(SEARCH_DEPTH)")   # hand-written: feature F44 (thread-local depth statistics with a Drop guard) + one path that forgets the guard
m(["C24"], "stop-flag-static-mut-again", "src/time_out.rs", None, None, "R2/race(SUIRON_STOP_QUERY)")

def main():
    index = []
    for x in M:
        if x["old"] is None:
            continue
        path = os.path.join(REPO, x["file"])
        src = open(path).read()
        if src.count(x["old"]) != x["count"]:
            print("!! %s: pattern occurs %d times in %s" % (x["name"], src.count(x["old"]), x["file"]))
            continue
        new = src.replace(x["old"], x["new"])
        diff = "".join(difflib.unified_diff(src.splitlines(True), new.splitlines(True), "a/" + x["file"], "b/" + x["file"]))
        for p in x["props"]:
            d = os.path.join(OUT, p)
            os.makedirs(d, exist_ok=True)
            with open(os.path.join(d, x["name"] + ".patch"), "w") as f:
                f.write(diff)
            index.append({"property": p, "name": x["name"], "file": x["file"], "expect": x["expect"] if p == x["props"][0] else None})
    json.dump(index, open(os.path.join(OUT, "index.json"), "w"), indent=1)
    print(len(index), "patches")

if __name__ == "__main__":
    main()
