#!/usr/bin/env python3
"""Development regression harness for the rule modules (not a registered check).

  selftest/regress.py build            extract facts of /repo, every equivalent, refactoring, self-mutant and seeded change
                                       into a scratch cache (default /tmp/fcache; removed with `clean`)
  selftest/regress.py run [Cxx ...]    run the rule modules in-process on the cached facts and compare with what is expected:
                                       repo / equivalents / refactors -> silent;  mutants of Cxx -> at least one violation of Cxx
  selftest/regress.py clean
"""
import glob
import importlib
import importlib.machinery
import importlib.util
import json
import os
import shutil
import subprocess
import sys
from concurrent.futures import ProcessPoolExecutor, ThreadPoolExecutor

VERIF = os.path.dirname(os.path.dirname(os.path.abspath(__file__)))
CACHE = os.environ.get("FCACHE", "/tmp/fcache")
sys.path.insert(0, os.path.join(VERIF, "analysis"))
sys.dont_write_bytecode = True
loader = importlib.machinery.SourceFileLoader("check_mod", os.path.join(VERIF, "check"))
spec = importlib.util.spec_from_loader("check_mod", loader)
chk = importlib.util.module_from_spec(spec)
loader.exec_module(chk)


# C18 only: performance rewrites of parser functions introduce panic-capable sites (string slices by byte index, new index
# helpers, loops driven by helper results) that neither the bounds prover nor a reviewed entry discharges (DESIGN 7)
SAME_FINDING_ELSEWHERE = "C20/R5/own-production(SFunction via check_arithmetic_infix) also in "
KNOWN_LIMIT = {("ref-R43", "C18"), ("ref-R45", "C18"), ("ref-R46", "C18"), ("ref-R55", "C18"), ("ref-R56", "C18"), ("ref-R83", "C18"), ("ref-R93", "C18"),
               # the three list walks rewritten as one iterator struct (`ListWalk`) and the constructor driven by `terms.len()`
               ("ref-R81", "C16"), ("ref-R81", "C17")}


def trees():
    """name -> (kind, patch or None, props expected to fire)"""
    out = {"repo": ("clean", None, [])}
    for p in sorted(glob.glob(os.path.join(VERIF, "selftest", "equivalents", "*.patch"))):
        out["eq-" + os.path.basename(p)[:-6]] = ("clean", p, [])
    for p in sorted(glob.glob(os.path.join(VERIF, "selftest", "refactors", "*.patch"))):
        out["ref-" + os.path.basename(p)[:-6]] = ("clean", p, [])
    for p in sorted(glob.glob(os.path.join(VERIF, "selftest", "features", "*.patch"))):
        out["feat-" + os.path.basename(p)[:-6]] = ("clean", p, [])
    for p in sorted(glob.glob(os.path.join(VERIF, "selftest", "mutants", "*", "*.patch"))):
        prop = os.path.basename(os.path.dirname(p))
        out["mut-%s-%s" % (prop, os.path.basename(p)[:-6])] = ("mutant", p, [prop])
    # every repair made to /repo, undone again: the defect must be reported by its property's check
    ridx = os.path.join(VERIF, "selftest", "reverts", "index.json")
    if os.path.exists(ridx):
        for c, info in json.load(open(ridx)).items():
            out["revert-" + c] = ("mutant", os.path.join(VERIF, "selftest", "reverts", c + ".patch"), [info["property"]])
    for m in sorted(glob.glob(os.path.join(VERIF, "seeded", "*", "meta.json"))):
        j = json.load(open(m))
        if j.get("not_reported"):
            continue        # a confirmed change no rule reports (documented in its meta.json and in DESIGN 10.4)
        props = sorted({j.get("property_id")} | {str(c).split("/")[0] for c in j.get("caught_by", [])})
        out["seed-" + os.path.basename(os.path.dirname(m))] = ("mutant", os.path.join(os.path.dirname(m), "patch.diff"), [x for x in props if x])
    return out


def build_one(item):
    name, (kind, patch, props) = item
    dst = os.path.join(CACHE, name)
    if os.path.exists(os.path.join(dst, "suiron-lib.json")):
        return name, "cached"
    d = chk._copy_tree("/repo")
    try:
        if patch:
            r = subprocess.run(["git", "apply", "--unsafe-paths", "--directory=" + d, patch], capture_output=True, text=True, cwd="/")
            if r.returncode != 0:
                r = subprocess.run(["patch", "-p1", "-s", "-d", d, "-i", patch], capture_output=True, text=True)
                if r.returncode != 0:
                    return name, "patch does not apply"
        try:
            f = chk.extract(d, chk.ensure_driver(), deps=True, quiet=True)
        except SystemExit:
            return name, "does not compile"
        shutil.rmtree(dst, ignore_errors=True)
        shutil.move(f, dst)
        return name, "ok"
    finally:
        shutil.rmtree(d, ignore_errors=True)


def run_one(arg):
    name, prop = arg
    mod = importlib.import_module("rules." + prop)
    keys, n = chk._violated_keys(mod, prop, os.path.join(CACHE, name), "quick")
    return name, prop, keys, n


def main():
    cmd = sys.argv[1] if len(sys.argv) > 1 else "run"
    ts = trees()
    if cmd == "clean":
        shutil.rmtree(CACHE, ignore_errors=True)
        return
    if cmd == "build":
        os.makedirs(CACHE, exist_ok=True)
        only = sys.argv[2:]
        items = [(k, v) for k, v in ts.items() if not only or any(k.startswith(o) for o in only)]
        with ThreadPoolExecutor(max_workers=8) as ex:
            for name, st in ex.map(build_one, items):
                if st not in ("ok", "cached"):
                    print(name, st)
        return
    manifest = json.load(open(os.path.join(VERIF, "MANIFEST.json")))
    allprops = [c["property_id"] for c in manifest["checks"]]
    args = [a for a in sys.argv[2:] if not a.startswith("--")]
    only_tree = [a[7:] for a in sys.argv[2:] if a.startswith("--tree=")]
    props = [a for a in args if a in allprops] or allprops
    jobs = []
    for name, (kind, patch, exp) in ts.items():
        if not os.path.exists(os.path.join(CACHE, name, "suiron-lib.json")):
            continue
        if only_tree and not any(name.startswith(o) for o in only_tree):
            continue
        for p in props:
            if kind == "clean" or p in exp:
                jobs.append((name, p))
    bad = 0
    fired = {}
    with ProcessPoolExecutor(max_workers=14) as ex:
        for name, prop, keys, n in ex.map(run_one, jobs, chunksize=2):
            kind, patch, exp = ts[name]
            if kind == "clean" and keys:
                # the open known finding of C20 (known_findings.json) is keyed by the scanner it names; a rewrite that
                # renames that scanner keeps the defect, so the same report under the new name is not a false alarm
                same = [k for k in keys if k.startswith(SAME_FINDING_ELSEWHERE)]
                if same:
                    print("same-finding %s %s: %s" % (name, prop, "; ".join(k[len(prop) + 1:] for k in same)[:200]))
                    keys = [k for k in keys if k not in same]
                    if not keys:
                        continue
                if (name, prop) in KNOWN_LIMIT:
                    print("known-limit %s %s (DESIGN 7: reviewed / unproved parser sites after a rewrite): %s" % (
                        name, prop, "; ".join(k[len(prop) + 1:] for k in keys)[:200]))
                    continue
                bad += 1
                print("FALSE-ALARM %s %s: %s" % (name, prop, "; ".join(k[len(prop) + 1:] for k in keys)[:400]))
            if kind == "mutant":
                fired.setdefault(name, {})[prop] = bool(keys)
    for name, d in sorted(fired.items()):
        silent = sorted(p for p, f in d.items() if not f)
        if set(ts[name][2]) - set(d):
            continue        # partial run: not every property expected to report this change was evaluated
        if not any(d.values()):
            bad += 1
            print("MISSED %s (silent: %s)" % (name, " ".join(silent)))
        elif silent and "--verbose" in sys.argv:
            print("partly %s (silent: %s)" % (name, " ".join(silent)))
    print("regress: %d jobs, %d problem(s)" % (len(jobs), bad))


if __name__ == "__main__":
    main()
