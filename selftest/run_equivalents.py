#!/usr/bin/env python3
"""False-alarm guard: applies each behaviour-preserving edit of selftest/equivalents (hand-written) and of
selftest/refactors (written by independent agents, see DESIGN §10.5) to a scratch copy of /repo, optionally runs the
repository's test suite on it (--tests), and runs every check; all must stay silent, except for the one documented
limit (DESIGN §7): C18 on six deep rewrites of parser functions (new string slices / index helpers the bounds
prover cannot discharge).
(selftest/regress.py does the same on cached facts in seconds; this script goes through ./check end to end.)"""
import glob, json, os, shutil, subprocess, sys, tempfile
VERIF = os.path.dirname(os.path.dirname(os.path.abspath(__file__)))
ids = [c["property_id"] for c in json.load(open(os.path.join(VERIF, "MANIFEST.json")))["checks"]]
run_tests = "--tests" in sys.argv
bad = 0
KNOWN_LIMIT = {("R43.patch", "C18"), ("R45.patch", "C18"), ("R46.patch", "C18"), ("R55.patch", "C18"), ("R56.patch", "C18"), ("R58.patch", "C18")}
for patch in sorted(glob.glob(os.path.join(VERIF, "selftest", "equivalents", "*.patch")) +
                    glob.glob(os.path.join(VERIF, "selftest", "refactors", "*.patch"))):
    d = tempfile.mkdtemp(prefix="suiron-equiv-")
    try:
        for name in ("src", "Cargo.toml", "Cargo.lock", "build.rs", "benches", "tests"):
            p = os.path.join("/repo", name)
            if os.path.isdir(p):
                shutil.copytree(p, os.path.join(d, name))
            elif os.path.exists(p):
                shutil.copy(p, os.path.join(d, name))
        r = subprocess.run(["patch", "-p1", "-s", "-d", d, "-i", patch], capture_output=True, text=True)
        if r.returncode != 0:
            print("SKIP %s (does not apply)" % os.path.basename(patch))
            continue
        if run_tests:
            t = subprocess.run(["cargo", "nextest", "run", "--offline", "--no-fail-fast"], cwd=d, capture_output=True, text=True,
                               env=dict(os.environ, CARGO_TARGET_DIR=os.path.join(d, "target"), CARGO_NET_OFFLINE="true"))
            ok = "100 passed" in (t.stdout + t.stderr)
            print("  tests on %s: %s" % (os.path.basename(patch), "100 passed" if ok else "NOT OK"))
        alarms = []
        for pid in ids:
            c = subprocess.run([os.path.join(VERIF, "check"), pid, "--repo", d, "--no-evidence"], capture_output=True, text=True)
            if c.returncode != 0 and (os.path.basename(patch), pid) in KNOWN_LIMIT:
                print("  documented limit (DESIGN 7): C18 reports unproved parser sites on %s" % os.path.basename(patch))
                continue
            if c.returncode != 0:
                alarms.append((pid, [l for l in c.stdout.splitlines() if l.strip().startswith("rule=")][:3]))
        if alarms:
            bad += 1
            print("FALSE ALARM on %s:" % os.path.basename(patch))
            for pid, ls in alarms:
                print("   %s %s" % (pid, " | ".join(x.strip()[:220] for x in ls)))
        else:
            print("silent  %s" % os.path.basename(patch))
    finally:
        shutil.rmtree(d, ignore_errors=True)
sys.exit(1 if bad else 0)
