#!/bin/bash
# ./selftest/run_on_tree.sh DIR  — run every claimed check against the tree in DIR (no evidence written), 6 at a time.
# Used for the false-alarm guard on behaviour-preserving refactorings and for confirming seeded changes.
DIR=$1
TAG=$(basename "$DIR")
cd "$(dirname "$0")/.."
ids=$(python3 -c "import json;print(' '.join(c['property_id'] for c in json.load(open('MANIFEST.json'))['checks']))")
printf '%s\n' $ids | xargs -P 6 -I{} sh -c './check {} --repo '"$DIR"' --no-evidence > /tmp/verif_tree_'"$TAG"'_{}.log 2>&1; echo "{} exit=$?"' | sort | tr '\n' ' '
echo
grep -h "^VIOLATION\|^  rule=" /tmp/verif_tree_${TAG}_C*.log | cut -c1-400
