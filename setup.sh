#!/bin/sh
# Builds the fact extractor (rustc_private driver) offline. Idempotent.
set -e
cd "$(dirname "$0")/extractor"
export CARGO_NET_OFFLINE=true
exec flock .build.lock cargo +nightly build --offline 2>&1
