//! Compile-fail witnesses for two type-level facts the rules lean on.
//! Run with `cargo +nightly test --doc --offline` (error codes are honoured on nightly only).
//! Each `compile_fail` block is paired with a compiling twin that differs in the offending line only,
//! so that a witness cannot "pass" because of an unrelated error (wrong path, missing import).

/// W1 — a shared substitution set cannot be mutated in place.
///
/// ```compile_fail,E0596
/// use std::rc::Rc;
/// use suiron::*;
/// let ss: Rc<SubstitutionSet> = empty_ss!();
/// ss.push(None);            // needs &mut Vec: an Rc gives none
/// ```
///
/// twin (compiles):
/// ```
/// use std::rc::Rc;
/// use suiron::*;
/// let ss: Rc<SubstitutionSet> = empty_ss!();
/// let _n = ss.len();
/// ```
pub struct W1SharedSetIsImmutable;

/// W1b — nor through the entries: a bound term behind `Rc<Unifiable>` cannot be overwritten.
///
/// ```compile_fail,E0594
/// use std::rc::Rc;
/// use suiron::*;
/// let t: Rc<Unifiable> = Rc::new(atom!("a"));
/// *t = atom!("b");          // cannot assign to data in an `Rc`
/// ```
///
/// twin (compiles):
/// ```
/// use std::rc::Rc;
/// use suiron::*;
/// let t: Rc<Unifiable> = Rc::new(atom!("a"));
/// let _u: Unifiable = (*t).clone();
/// ```
pub struct W1bBoundTermIsImmutable;

/// W2 — the solver cannot change the knowledge base: a solution node holds `&KnowledgeBase`.
///
/// ```compile_fail,E0596
/// use std::rc::Rc;
/// use suiron::*;
/// let kb = KnowledgeBase::new();
/// let q = parse_query("a").unwrap();
/// let node = SolutionNode::new(Rc::new(q), &kb);
/// node.kb.insert("x/0".to_string(), vec![]);   // `*node.kb` is behind a `&` reference
/// ```
///
/// twin (compiles):
/// ```
/// use std::rc::Rc;
/// use suiron::*;
/// let kb = KnowledgeBase::new();
/// let q = parse_query("a").unwrap();
/// let node = SolutionNode::new(Rc::new(q), &kb);
/// let _n = node.kb.len();
/// ```
pub struct W2SolverHoldsSharedKb;
